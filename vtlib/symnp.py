"""symnp - the numpy API subset used by the FlatBuffers writer/reader, on bit-vectors (DESIGN.md 2.2).

An array is (real np.dtype, shape, layout flag, elements in LOGICAL C order; each element = its memory bytes as
8-bit z3 bit-vectors in memory order).  dtype-level questions (can_cast, itemsize, byteorder, newbyteorder) are
delegated to the real numpy; element-level operations are Extract/Concat/SignExt/ZeroExt/fpToFP.
An operation the shim does not model raises Inconclusive (never a wrong answer).
"""
from __future__ import annotations

import sys
import types

import numpy as rnp
import z3

from .symx import Inconclusive


def is_le(dt: rnp.dtype) -> bool:
    return dt.byteorder in ("<", "|") or (dt.byteorder == "=" and sys.byteorder == "little")


def value_of(mem_bytes, dt):
    """Numeric bit pattern (MSB first) of one element given its memory bytes."""
    b = mem_bytes[::-1] if is_le(dt) else mem_bytes
    return z3.Concat(*b) if len(b) > 1 else b[0]


def mem_of(value_bv, dt):
    w = dt.itemsize
    by = [z3.Extract(8 * (w - k) - 1, 8 * (w - k - 1), value_bv) for k in range(w)]  # MSB first
    return by[::-1] if is_le(dt) else by


_FSORT = {2: z3.Float16, 4: z3.Float32, 8: z3.Float64}


def convert(bv, src: rnp.dtype, dst: rnp.dtype):
    """Exact value conversion src -> dst for SAFE casts (what np.array(x, dtype=dst) does); returns (bv, exact)."""
    s, d = src.newbyteorder("=") if src.byteorder != "|" else src, dst.newbyteorder("=") if dst.byteorder != "|" else dst
    if s == d:
        return bv, True
    if s.kind == "b":
        one = z3.If(bv != 0, z3.BitVecVal(1, 8), z3.BitVecVal(0, 8))
        if d.kind in "iu":
            return z3.ZeroExt(d.itemsize * 8 - 8, one), True
        if d.kind == "f":
            return z3.fpToIEEEBV(z3.fpToFP(z3.RNE(), z3.ZeroExt(24, one), _FSORT[d.itemsize]())), True
    if s.kind in "iu" and d.kind in "iu" and d.itemsize > s.itemsize and not (s.kind == "i" and d.kind == "u"):
        ext = (d.itemsize - s.itemsize) * 8
        return (z3.SignExt(ext, bv) if s.kind == "i" else z3.ZeroExt(ext, bv)), True
    if s.kind in "iu" and d.kind == "f":
        f = z3.fpSignedToFP(z3.RNE(), bv, _FSORT[d.itemsize]()) if s.kind == "i" else z3.fpUnsignedToFP(z3.RNE(), bv, _FSORT[d.itemsize]())
        return z3.fpToIEEEBV(f), True
    if s.kind == "f" and d.kind == "f" and d.itemsize > s.itemsize:
        return z3.fpToIEEEBV(z3.fpToFP(z3.RNE(), z3.fpBVToFP(bv, _FSORT[s.itemsize]()), _FSORT[d.itemsize]())), True
    return z3.BitVec(f"lossy_{id(bv)}", d.itemsize * 8), False  # unsafe cast: unconstrained


class SymDType:
    def __init__(self, dt):
        self.dt = dt.dt if isinstance(dt, SymDType) else rnp.dtype(dt)

    byteorder = property(lambda s: s.dt.byteorder)
    itemsize = property(lambda s: s.dt.itemsize)
    kind = property(lambda s: s.dt.kind)
    name = property(lambda s: s.dt.name)
    str = property(lambda s: s.dt.str)
    hasobject = property(lambda s: s.dt.hasobject)

    def newbyteorder(self, o="S"):
        return SymDType(self.dt.newbyteorder(o))

    def __eq__(self, o):
        return self.dt == (o.dt if isinstance(o, SymDType) else o)

    def __hash__(self):
        return hash(self.dt)

    def __format__(self, f):
        return str(self.dt)

    __str__ = __repr__ = lambda s: str(s.dt)


def _dt(x):
    return x.dt if isinstance(x, SymDType) else rnp.dtype(x)


class SymBytes:
    def __init__(self, b):
        self.b = list(b)

    def __len__(self):
        return len(self.b)


class SymArr:
    def __init__(self, dt, shape, elems, layout="C"):
        self.dtype = SymDType(dt)
        self.shape = tuple(shape)
        self.elems = elems  # logical C order
        self.layout = layout  # memory layout of the (contiguous) buffer: "C" or "F"
        self.ndim = len(self.shape)
        self.size = len(elems)

    def _order_indices(self, order):
        """Indices into the logical-C element list in the requested traversal order."""
        n = len(self.elems)
        if order in ("C", None):
            return list(range(n))
        if order == "A":
            order = "F" if (self.layout == "F" and self.ndim > 1) else "C"
        if order == "K":
            order = self.layout
        if order == "C":
            return list(range(n))
        if order == "F":
            idx = rnp.arange(n).reshape(self.shape) if self.shape else rnp.arange(n)
            return [int(i) for i in rnp.asarray(idx).flatten(order="F")]
        raise Inconclusive(f"traversal order {order!r}")

    def value(self, i):
        return value_of(self.elems[i], self.dtype.dt)

    def copy(self, order="K"):
        lay = self.layout if order in ("K", "A") else order
        return SymArr(self.dtype, self.shape, list(self.elems), lay)

    def flatten(self, order="C"):
        idx = self._order_indices(order)
        return SymArr(self.dtype, (len(self.elems),), [self.elems[i] for i in idx], "C")

    ravel = flatten

    def byteswap(self, inplace=False):
        if inplace:
            self.elems = [b[::-1] for b in self.elems]
            return self
        return SymArr(self.dtype, self.shape, [b[::-1] for b in self.elems], self.layout)

    def tobytes(self, order="C"):
        idx = self._order_indices(order)
        return SymBytes([x for i in idx for x in self.elems[i]])

    def reshape(self, *shape, order="C"):
        if len(shape) == 1 and isinstance(shape[0], (tuple, list)):
            shape = tuple(shape[0])
        if order != "C":
            raise Inconclusive("reshape with a non-C order")
        shape = tuple(int(d) for d in shape)
        if -1 in shape:
            known = 1
            for d in shape:
                if d != -1:
                    known *= d
            shape = tuple(len(self.elems) // known if d == -1 else d for d in shape)
        n = 1
        for d in shape:
            n *= d
        if n != len(self.elems):
            raise ValueError(f"cannot reshape array of size {len(self.elems)} into shape {shape}")
        if self.layout != "C" and self.ndim > 1:
            raise Inconclusive("reshape of a non-C-contiguous array")
        return SymArr(self.dtype, shape, self.elems, "C")

    def astype(self, dtype, **kw):
        return NP.array(None, self, dtype=dtype)

    def view(self, dtype=None):
        raise Inconclusive("ndarray.view")

    def __len__(self):
        return self.shape[0] if self.shape else 0


class NP(types.ModuleType):
    ndarray = SymArr
    uint8 = rnp.uint8
    typing = rnp.typing  # only used in annotations

    def __getattr__(self, name):
        raise Inconclusive(f"numpy.{name} is not modelled by symnp")

    def copy(self, a, order="K"):
        return _arr(a).copy(order)

    def asarray(self, a, dtype=None):
        return _arr(a) if dtype is None else self.array(a, dtype=dtype)

    asanyarray = asarray

    def ascontiguousarray(self, a, dtype=None):
        a = _arr(a)
        a = SymArr(a.dtype, a.shape, list(a.elems), "C")
        return a if dtype is None else self.array(a, dtype=dtype)

    def can_cast(self, a, to, casting="safe"):
        src = a.dtype.dt if isinstance(a, SymArr) else _dt(a)
        return bool(rnp.can_cast(src, _dt(to), casting=casting))

    def array(self, a, dtype=None, copy=True, order="K"):
        a = _arr(a)
        if dtype is None:
            return a.copy(order)
        dst, src = _dt(dtype), a.dtype.dt
        out = []
        for i in range(len(a.elems)):
            v, _ = convert(a.value(i), src, dst)
            out.append(mem_of(v, dst))
        return SymArr(dst, a.shape, out, a.layout if order in ("K", "A") else order)

    def dtype(self, x):
        return SymDType(x)

    def frombuffer(self, buffer, dtype=float, count=-1, offset=0):
        dt = _dt(dtype)
        w = dt.itemsize
        if isinstance(buffer, SymArr):
            if buffer.dtype.dt.itemsize != 1:
                raise Inconclusive("frombuffer of a non-byte array")
            b = [x for e in buffer.elems for x in e]
        elif isinstance(buffer, SymBytes):
            b = buffer.b
        else:
            raise Inconclusive(f"frombuffer of {type(buffer).__name__}")
        if offset or count != -1:
            raise Inconclusive("frombuffer with offset/count")
        if w == 0 or len(b) % w:
            raise ValueError("buffer size must be a multiple of element size")
        return SymArr(dt, (len(b) // w,), [b[i:i + w] for i in range(0, len(b), w)], "C")


def _arr(a):
    if isinstance(a, SymArr):
        return a
    raise Inconclusive(f"symnp got a {type(a).__name__}")


def fresh_array(prefix, dtype, shape, layout="C"):
    """A symbolic array: every element an unconstrained bit pattern of the dtype's width."""
    dt = rnp.dtype(dtype)
    n = 1
    for d in shape:
        n *= d
    vals = [z3.BitVec(f"{prefix}{i}", 8 * dt.itemsize) for i in range(n)]
    return SymArr(dt, shape, [mem_of(v, dt) for v in vals], layout), vals


np_shim = NP("numpy_symbolic")
