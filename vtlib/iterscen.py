"""Shared scenario machinery for the iteration properties (C02, C03, C07, C14, C19).

A real dataset (real files, real shard-list tree written by the real filler) is built once per cell; the
shard decoders are replaced by token decoders (tokens = the example ids the shard holds), so that one
explored path costs milliseconds and shard failures can be injected.  The REAL iteration code runs:
shard_info_iterator, shard_paths_dataset, as_numpy_common, shuffle_buffer, round_robin(+async), the
generator bodies of every as_numpy_iterator* method, RustGenerator.  Symbolic inputs: every random state
(initial_random_state / next_random_state return fresh symbolic integers, so EVERY index sequence is covered,
not one LCG orbit), shuffle size, file_parallelism, the order in which the lazy pool hands back results.
Stubs (contracts): LazyPool (each result exactly once, arbitrary order within a window - proved in C13),
ThreadPoolExecutor.map (results in submission order, re-raises - library contract), RustIter (C15).
"""
from __future__ import annotations

import itertools
import types
from pathlib import Path

from . import fillerlab, iterlab
from .symx import Inconclusive

LAYOUTS = {
    # name -> list of sessions; session = (kind, [(split, n_examples_written_in_order)...]) ; E = examples_per_shard
    "one-shard": dict(E=3, sessions=[("root", [("train", 2)])]),
    "two-shards": dict(E=2, sessions=[("root", [("train", 3)])]),
    "short-last": dict(E=2, sessions=[("root", [("train", 5), ("test", 1)])]),
    "singles": dict(E=1, sessions=[("root", [("train", 3)])]),
    "nested": dict(E=2, sessions=[("root", [("train", 3), ("test", 2)]), ("sub:a", [("train", 2)]), ("sub:a/c", [("train", 1)])]),
    "multi": dict(E=2, sessions=[("multi", [("train", 3), ("test", 1)], [("train", 2), ("test", 2)])]),
    "multi3": dict(E=1, sessions=[("root", [("train", 1)]), ("multi", [("train", 1), ("test", 1)], [("test", 1), ("train", 2)], [("train", 1)])]),
    "three-splits": dict(E=2, sessions=[("root", [("train", 2), ("test", 2), ("holdout", 3)])]),
    "four-shards": dict(E=1, sessions=[("root", [("train", 4)])]),
    "five-shards": dict(E=2, sessions=[("root", [("train", 9)]), ("sub:b", [("test", 1)])]),
    # no checksum algorithms configured; every interface has already iterated every split on this handle BEFORE the last
    # session added data (nothing remembered from an earlier pass may hide the new shards)
    "grown": dict(E=2, hashes=(), iterate_between=True, sessions=[("root", [("train", 3), ("test", 1)]), ("root", [("train", 2)])]),
}


def _feed(dataset_filler, plan, start):
    v = start
    with dataset_filler as f:
        for split, n in plan:
            for _ in range(n):
                f.write_example(values=fillerlab.example(v), split=split)
                v += 1
    return v


def build(tmp: Path, layout: str):
    """Returns (dataset, table path->[ids], written: split -> list of (session index, id) in write order)."""
    from sedpack.io.dataset_filler import DatasetFiller
    spec = LAYOUTS[layout]
    d = fillerlab.make_dataset(tmp / "ds", eps=spec["E"], hashes=spec.get("hashes", ("md5",)))
    written: dict[str, list] = {}
    v = 0
    for si, sess in enumerate(spec["sessions"]):
        kind = sess[0]
        if si > 0 and spec.get("iterate_between"):
            _iterate_everything_once(d)
        if kind == "multi":
            plans = sess[1:]
            starts = []
            for plan in plans:
                starts.append(v)
                for split, n in plan:
                    for _ in range(n):
                        written.setdefault(split, []).append((si, v))
                        v += 1
            d.write_multiprocessing(feed_writer=_feed, custom_arguments=[(p, s) for p, s in zip(plans, starts)],
                                    single_process=True, consistency_check=False)
        else:
            rel = None if kind == "root" else Path(kind[4:])
            filler = DatasetFiller(d) if rel is None else DatasetFiller(d, relative_path_from_split=rel)
            with filler as f:
                # interleave the splits round-robin so that several shards are open at once
                plan = [[split, n] for split, n in sess[1]]
                while any(n for _, n in plan):
                    for item in plan:
                        if item[1]:
                            f.write_example(values=fillerlab.example(v), split=item[0])
                            written.setdefault(item[0], []).append((si, v))
                            item[1] -= 1
                            v += 1
    table = {}
    for split in d._dataset_info.splits:
        for s in d.shard_info_iterator(split):
            table[str(d.path / s.file_infos[0].file_path)] = fillerlab.decode_values(d, s)
    return d, table, written


def _iterate_everything_once(d):
    """One finite pass of every split through every real interface (real decoders, real threads)."""
    import asyncio
    for split in list(d._dataset_info.splits):
        kw = dict(split=split, repeat=False)
        for shuffle in (0, 2):
            list(d.as_numpy_iterator(shuffle=shuffle, **kw))
            list(d.as_numpy_iterator_concurrent(shuffle=shuffle, file_parallelism=2, **kw))
            list(d.as_numpy_iterator_rust(shuffle=shuffle, file_parallelism=2, **kw))

            async def drain(shuffle=shuffle):
                return [x async for x in d.as_numpy_iterator_async(shuffle=shuffle, file_parallelism=2, **kw)]
            asyncio.run(drain())


class Monitor:
    def __init__(self):
        self.opened = []  # shard paths handed to a decoder, in order
        self.pulled = 0  # examples produced by decoders (lazy interfaces) / loaded (list interfaces)
        self.processed = []  # process_record calls
        self.rust = None


def make_decoder(table, mon: Monitor, fail=()):
    class Dec(iterlab.TokenDecoder):
        def _tokens(self, file_path):
            p = str(file_path)
            mon.opened.append(p)
            if p in fail:
                raise OSError(f"vt: unreadable shard {Path(p).name}")
            if p not in table:
                raise Inconclusive(f"decoder asked for an unknown path {p}")
            return table[p]

        def iterate_shard(self, file_path):
            for t in self._tokens(file_path):
                mon.pulled += 1
                yield t

        async def iterate_shard_async(self, file_path):
            for t in self._tokens(file_path):
                mon.pulled += 1
                yield t

        def process_and_list(self, shard_file):
            f = self.process_record or (lambda x: x)
            toks = self._tokens(shard_file)
            mon.pulled += len(toks)
            return [f(t) for t in toks]
    return Dec


class StubExecutor:
    """concurrent.futures.ThreadPoolExecutor contract: map() returns results in submission order and re-raises the
    k-th call's exception when its result is requested; evaluation order is arbitrary (here: reversed, eagerly)."""

    def __init__(self, max_workers=None, **kw):
        self.max_workers = max_workers

    def __enter__(self):
        return self

    def __exit__(self, *a):
        return False

    def map(self, fn, *iterables):
        args = list(zip(*iterables))
        results = [None] * len(args)
        for i in reversed(range(len(args))):
            try:
                results[i] = ("ok", fn(*args[i]))
            except Exception as exc:  # noqa: BLE001
                results[i] = ("err", exc)

        def gen():
            for kind, val in results:
                if kind == "err":
                    raise val
                yield val
        return gen()

    def submit(self, fn, *a, **k):
        # contract: the call happens at some time after submit; here: immediately.  The future is a real one.
        from concurrent.futures import Future
        f = Future()
        try:
            f.set_result(fn(*a, **k))
        except Exception as exc:  # noqa: BLE001
            f.set_exception(exc)
        return f

    def shutdown(self, *a, **k):
        pass


def make_lazy_pool(e, window_cap=2):
    """LazyPool contract stub (what C13 proves about the real pool, weakened): every input is mapped exactly once,
    results come back in an arbitrary order among the inputs currently in flight (at most 2T+3, here capped),
    an exception of the mapped function is re-raised to the consumer, inputs are pulled lazily."""

    class StubLazyPool:
        def __init__(self, threads=None):
            t = threads or 1
            self.threads = t if isinstance(t, int) else t  # may be symbolic
            self.active = False  # one imap_unordered at a time per pool object (the real pool asserts this)

        def __enter__(self):
            return self

        def __exit__(self, exc_type, exc, tb):
            self.active = False
            if exc:
                raise exc
            return True

        def imap_unordered(self, func, iterable):
            if self.active:
                raise AssertionError("LazyPool contract: imap_unordered started while another one is running on the same pool")
            self.active = True
            try:
                it = iter(iterable)
                inflight = []
                done = False
                while True:
                    while not done and len(inflight) < window_cap:
                        try:
                            inflight.append(next(it))
                        except StopIteration:
                            done = True
                    if not inflight:
                        return
                    k = e.choice(f"lp_pick{e.nvars}", len(inflight)) if len(inflight) > 1 else 0
                    x = inflight.pop(k)
                    yield func(x)
            finally:
                self.active = False
    return StubLazyPool


def clear_module_caches(*modules):
    """Memo tables at module level (functools caches) must not carry objects of one explored path into the next; within a
    path they are part of the code under test."""
    for m in modules:
        for v in list(vars(m).values()):
            if isinstance(v, types.ModuleType) or not callable(v):
                continue
            try:
                cc = getattr(v, "cache_clear", None)
            except Exception:  # noqa: BLE001
                continue
            if callable(cc):
                try:
                    cc()
                except Exception:  # noqa: BLE001
                    pass


def patch_randomness(e, IT, shuffle_variants=2):
    """Every random state is a fresh symbolic natural; random.shuffle permutes by a solver-chosen variant."""
    saved = (IT.initial_random_state, IT.next_random_state, IT.random)
    IT.initial_random_state = lambda seed=None: e.fresh_int(f"r{e.nvars}", 0, None)
    IT.next_random_state = lambda r: e.fresh_int(f"r{e.nvars}", 0, None)

    def shuffle(buf):
        if len(buf) > 1 and shuffle_variants > 1 and e.choice(f"final_shuffle{e.nvars}", 2):
            buf.reverse()
    IT.random = types.SimpleNamespace(shuffle=shuffle, randint=lambda a, b: e.fresh_int(f"r{e.nvars}", a, b))

    def restore():
        IT.initial_random_state, IT.next_random_state, IT.random = saved
    return restore


def drive_async(agen):
    """Run an async generator whose awaits never really suspend (token decoders) without an event loop."""
    it = agen.__aiter__()
    while True:
        coro = it.__anext__()
        try:
            coro.send(None)
        except StopIteration as s:
            yield s.value
            continue
        except StopAsyncIteration:
            return
        raise Inconclusive("async iteration suspended on a real awaitable")


def stream(e, d, table, iface, *, split="train", shuffle=0, T=2, repeat=False, process_record=None, fail=(), mon=None,
           extra=None):
    """Generator over what the consumer receives from interface `iface` of the real code."""
    import sedpack.io.dataset_iteration as DI
    import sedpack.io.itertools.itertools as IT
    mon = mon or Monitor()
    dec = make_decoder(table, mon, fail)
    restore = patch_randomness(e, IT)
    # the native iterator yields, per example, one byte vector per attribute: here one "attribute" holding the token
    rust = iterlab.fresh_rust_stub(table={p: [[t] for t in v] for p, v in table.items()})
    mon.rust = rust
    # the rust stub must fail like the native reader would on an unreadable shard
    if fail:
        base_gen = rust._gen

        def gen(self):
            for f in self.files:
                mon.opened.append(str(f))
                if str(f) in fail:
                    raise OSError("vt: unreadable shard (native)")
                yield from [[t] for t in table[str(f)]]
        rust._gen = gen
    kw = dict(split=split, repeat=repeat, shuffle=shuffle)
    kw.update(extra or {})
    patches = dict(IterateShardFlatBuffer=dec, IterateShardNP=dec, IterateShardTFRec=dec, ThreadPoolExecutor=StubExecutor,
                   LazyPool=make_lazy_pool(e), _sedpack_rs=types.SimpleNamespace(RustIter=rust),
                   shuffle_buffer=IT.shuffle_buffer, round_robin=IT.round_robin, round_robin_async=IT.round_robin_async)
    old = {k: getattr(DI, k) for k in patches}
    for k, v in patches.items():
        setattr(DI, k, v)
    # RustGenerator.to_dict decodes numpy bytes; tokens pass through unchanged
    old_decode = DI.IterateShardFlatBuffer
    try:
        if iface == "numpy":
            it = d.as_numpy_iterator(process_record=process_record, **kw)
        elif iface == "concurrent":
            it = d.as_numpy_iterator_concurrent(process_record=process_record, file_parallelism=T, **kw)
        elif iface == "async":
            it = drive_async(d.as_numpy_iterator_async(process_record=process_record, file_parallelism=T, **kw))
        elif iface == "rust":
            # the REAL as_numpy_iterator_rust / RustGenerator / to_dict run; decode_array passes the token through
            dec.decode_array = staticmethod(lambda np_bytes, attribute, batch_size=0: np_bytes)
            pr = (lambda ex: process_record(ex["a"])) if process_record else None
            it = ((x["a"] if isinstance(x, dict) else x)
                  for x in d.as_numpy_iterator_rust(process_record=pr, file_parallelism=T, **kw))
        elif iface == "tfdataset":
            rec = iterlab.RecTF()
            DI.tf, old_tf = rec, DI.tf
            try:
                ds = d.as_tfdataset(split, repeat=repeat, shuffle=shuffle, batch_size=0, file_parallelism=T,
                                    process_record=None, **(extra or {}))
            finally:
                DI.tf = old_tf
            mon.tf_ops = ds.names()
            mon.tf_dataset = ds  # tf.data calls the generator function once per iteration of the dataset object
            it = ds.run_generator() if ds.source == "from_generator" else iter(())
        else:
            raise AssertionError(iface)
        yield from it
    finally:
        for k, v in old.items():
            setattr(DI, k, v)
        restore()


def _rust_iter(gen):
    with gen as g:
        yield from g()


def split_tokens(d, table, split):
    out = []
    for s in d.shard_info_iterator(split):
        out += table[str(d.path / s.file_infos[0].file_path)]
    return out


def real_tf_anchor():
    """Concrete anchor with the REAL TensorFlow runtime (sub-process of the thorough tiers): as_tfdataset on tfrec and fb
    datasets - exactly-once multiset for shuffle on/off and several parallelisms, write order when unshuffled, equality of two
    passes over the same returned dataset.  Returns a list of problem strings."""
    import numpy as np
    from . import common
    problems = []
    for ft in ("tfrec", "fb"):
        with common.scratch_dir("vtrtf_") as tmp:
            d = fillerlab.make_dataset(tmp / "ds", ft=ft, eps=3)
            with d.filler() as f:
                for v in range(11):
                    f.write_example(values=fillerlab.example(v), split="train")
                for v in range(100, 103):
                    f.write_example(values=fillerlab.example(v), split="test")
            for shuffle in (0, 4):
                for par in (1, 2, 7):
                    for bs in (0, 4):
                        ds = d.as_tfdataset("train", repeat=False, shuffle=shuffle, batch_size=bs, file_parallelism=par, parallelism=par)
                        passes = []
                        for _ in range(2):
                            got = []
                            for x in ds.as_numpy_iterator():
                                a = np.asarray(x["a"])
                                got += [int(a[0])] if a.ndim == 1 else [int(r[0]) for r in a]
                            passes.append(got)
                        what = f"as_tfdataset({ft}, shuffle={shuffle}, file_parallelism={par}, batch_size={bs})"
                        for i, got in enumerate(passes):
                            if sorted(got) != list(range(11)):
                                problems.append(f"{what} pass {i + 1}: yields {sorted(got)} instead of exactly 0..10")
                        if shuffle == 0 and passes[0] != list(range(11)):
                            problems.append(f"{what}: unshuffled order {passes[0]} is not the write order")
                        if shuffle == 0 and passes[0] != passes[1]:
                            problems.append(f"{what}: two unshuffled passes differ")
    return problems


def real_tf_anchor_subprocess():
    """Run real_tf_anchor in a fresh interpreter with the real TensorFlow (the check process runs with the TF stub)."""
    import json
    import subprocess
    import sys
    from . import common
    r = subprocess.run([sys.executable, "-c",
                        "import json; from vtlib import common; common.import_sedpack(need_tf=True); from vtlib import iterscen; "
                        "print('RESULT ' + json.dumps(iterscen.real_tf_anchor()))"],
                       capture_output=True, text=True, timeout=1500, cwd=str(common.VERIF))
    for line in r.stdout.split("\n"):
        if line.startswith("RESULT "):
            return json.loads(line[7:]), None
    return [], "real-TF anchor sub-process failed: " + r.stderr[-300:]
