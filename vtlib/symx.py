"""symx - a small proxy-based symbolic executor on z3 (see DESIGN.md section 2.1).

The harness calls the *real* functions of /repo/src with proxy objects (SymInt, SymBool) where the
universally quantified inputs go.  `bool(SymBool)` forks, `int()/__index__/hash` realise (fork over
the feasible values), `Engine.prove(phi)` asks z3 for a model of path-condition AND NOT phi.
Exploration is depth first by re-execution with a decision prefix; the prefix records the value
tried at realisation forks so that a re-execution follows exactly the same tree.
"""
from __future__ import annotations

import time
from typing import Any, Callable

import z3


class Abort(BaseException):
    """The current path is infeasible (or was cut by an assumption)."""


class Inconclusive(BaseException):
    """Solver said unknown, a shim met something it does not model, a bound was hit."""


class PathTimeout(BaseException):
    """One execution path did not finish within the per-path budget (possible non-termination)."""


class CexFound(BaseException):
    """A prove() obligation has a counter-example on this path."""

    def __init__(self, msg: str, model: dict, info: Any = None):
        super().__init__(msg)
        self.msg = msg
        self.model = model
        self.info = info


QUERY_TIMEOUT_MS = 60_000
REALISE_CAP = 300


class Engine:
    def __init__(self, prefix=None):
        self.solver = z3.Solver()
        self.solver.set("timeout", QUERY_TIMEOUT_MS)
        self.prefix = list(prefix or [])
        self.pos = 0
        self.trail: list = []
        self.queries = 0
        self.qtime = 0.0
        self.nvars = 0
        self.realisations = 0
        self.forks = 0
        self.proves = 0
        self.proved = 0
        self.concrete_proves = 0
        self.vars: dict[str, Any] = {}
        self.notes: list = []  # free-form per-path notes (for samples)

    # -- solver plumbing ---------------------------------------------------------------------
    def check(self, *extra):
        t = time.time()
        r = self.solver.check(*extra)
        self.qtime += time.time() - t
        self.queries += 1
        if r == z3.unknown:
            raise Inconclusive(f"solver unknown: {self.solver.reason_unknown()}")
        return r

    def fresh_int(self, name, lo=None, hi=None):
        nm = f"{name}" if name not in self.vars else f"{name}#{self.nvars}"
        self.nvars += 1
        v = z3.Int(nm)
        self.vars[nm] = v
        if lo is not None:
            self.solver.add(v >= lo)
        if hi is not None:
            self.solver.add(v <= hi)
        return SymInt(self, v)

    def fresh_bool(self, name):
        nm = f"{name}" if name not in self.vars else f"{name}#{self.nvars}"
        self.nvars += 1
        v = z3.Bool(nm)
        self.vars[nm] = v
        return SymBool(self, v)

    def assume(self, cond):
        cond = _zb(cond)
        self.solver.add(cond)
        if self.pos >= len(self.prefix):
            if self.check() != z3.sat:
                raise Abort()

    def branch(self, cond, val=None):
        cond = _zb(cond)
        if self.pos < len(self.prefix):
            d, done, _ = self.prefix[self.pos]
            self.pos += 1
            self.solver.add(cond if d else z3.Not(cond))
            self.trail.append((d, done, val))
            return d
        can_t = self.check(cond) == z3.sat
        can_f = self.check(z3.Not(cond)) == z3.sat
        if can_t and can_f:
            d = True
            self.forks += 1
            self.trail.append((d, False, val))
        elif can_t:
            d = True
            self.trail.append((d, True, val))
        elif can_f:
            d = False
            self.trail.append((d, True, val))
        else:
            raise Abort()
        self.pos += 1
        self.solver.add(cond if d else z3.Not(cond))
        return d

    def realize(self, expr):
        """Fork over the feasible values of an integer term (C boundary)."""
        if z3.is_int_value(expr):
            return expr.as_long()
        self.realisations += 1
        tried = 0
        while True:
            tried += 1
            if tried > REALISE_CAP:
                raise Inconclusive(f"more than {REALISE_CAP} values realised for one term (unbounded symbolic value at a C boundary)")
            if self.pos < len(self.prefix):
                val = self.prefix[self.pos][2]  # replay: same value as first time
            else:
                if self.check() != z3.sat:
                    raise Abort()
                val = self.solver.model().eval(expr, model_completion=True).as_long()
            if self.branch(expr == val, val):
                return val

    def choice(self, name, n):
        """A symbolic choice in range(n), realised immediately (finite fork driven by the solver)."""
        return int(self.fresh_int(name, 0, n - 1))

    def model_dict(self, model=None):
        m = model if model is not None else self.solver.model()
        out = {}
        for nm, v in self.vars.items():
            val = m.eval(v, model_completion=True)
            if z3.is_int_value(val):
                out[nm] = val.as_long()
            elif z3.is_true(val):
                out[nm] = True
            elif z3.is_false(val):
                out[nm] = False
            elif z3.is_bv_value(val):
                out[nm] = val.as_long()
            else:
                out[nm] = str(val)
        return out

    def prove(self, cond, msg="", info=None):
        """Obligation: cond holds for every value of the symbolic inputs on this path."""
        self.proves += 1
        if isinstance(cond, bool):
            # does not depend on the symbolic inputs on this path: decided by evaluation
            self.concrete_proves += 1
            if not cond:
                if self.check() != z3.sat:
                    raise Abort()
                raise CexFound(msg, self.model_dict(), info)
            self.proved += 1
            return
        cond = _zb(cond)
        if self.check(z3.Not(cond)) == z3.sat:
            raise CexFound(msg, self.model_dict(), info)
        self.proved += 1

    def fail(self, msg="", info=None):
        """The path itself is a violation (e.g. unexpected exception); any model of the path condition."""
        self.proves += 1
        if self.check() != z3.sat:
            raise Abort()
        raise CexFound(msg, self.model_dict(), info)

    def sample(self):
        if self.check() != z3.sat:
            return None
        return self.model_dict()


def _zb(c):
    if isinstance(c, SymBool):
        return c.z
    if isinstance(c, bool):
        return z3.BoolVal(c)
    return c


class Stats:
    def __init__(self):
        self.paths = 0
        self.queries = 0
        self.qtime = 0.0
        self.realisations = 0
        self.forks = 0
        self.proves = 0
        self.proved = 0
        self.concrete_proves = 0
        self.aborted = 0
        self.cex: list = []
        self.samples: list = []
        self.inconclusive: list = []

    def merge(self, o: "Stats"):
        for k in ("paths", "queries", "qtime", "realisations", "forks", "proves", "proved", "aborted", "concrete_proves"):
            setattr(self, k, getattr(self, k) + getattr(o, k))
        self.cex += o.cex
        self.samples += o.samples[: max(0, 6 - len(self.samples))]
        self.inconclusive += o.inconclusive

    def as_dict(self):
        return dict(paths=self.paths, queries=self.queries, solver_s=round(self.qtime, 3),
                    realisation_forks=self.realisations, forks=self.forks, obligations=self.proves,
                    discharged=self.proved, aborted_paths=self.aborted,
                    obligations_decided_by_evaluation=self.concrete_proves)


def explore(fn: Callable[[Engine], Any], max_paths=2_000_000, max_cex=8, want_samples=3,
            deadline=None) -> Stats:
    """Run fn on every feasible path.  fn may raise CexFound (recorded, exploration continues)."""
    prefix: list = []
    st = Stats()
    import os
    import threading
    if deadline is None:
        deadline = time.time() + float(os.environ.get("VT_CELL_BUDGET_S", "900"))
    import signal
    path_budget = float(os.environ.get("VT_PATH_BUDGET_S", "30"))
    use_alarm = hasattr(signal, "setitimer") and threading.current_thread() is threading.main_thread()

    def _on_alarm(signum, frame):
        raise PathTimeout()

    if use_alarm:
        old_handler = signal.signal(signal.SIGALRM, _on_alarm)
    while True:
        e = Engine(prefix)
        try:
            if use_alarm:
                signal.setitimer(signal.ITIMER_REAL, path_budget)
            try:
                ret = fn(e)
            finally:
                if use_alarm:
                    signal.setitimer(signal.ITIMER_REAL, 0)
            if len(st.samples) < want_samples:
                try:
                    st.samples.append(dict(model=e.sample(), note=ret if ret is not None else e.notes[:6]))
                except Inconclusive:
                    pass
        except Abort:
            st.aborted += 1
        except PathTimeout:
            try:
                model = e.model_dict() if e.solver.check() == z3.sat else {}
            except Exception:  # noqa: BLE001
                model = {}
            if len(st.cex) < max_cex:
                st.cex.append(dict(msg=f"an execution path did not finish within {path_budget:.0f} s (non-termination?)",
                                   model=model, info=dict(kind="path-did-not-terminate", notes=e.notes[:4])))
            st.timeouts = getattr(st, "timeouts", 0) + 1
            if st.timeouts >= 2:
                st.inconclusive.append("exploration stopped after two paths that did not terminate")
                st.paths += 1
                break
        except CexFound as c:
            st.ncex = getattr(st, "ncex", 0) + 1
            if len(st.cex) < max_cex:
                st.cex.append(dict(msg=c.msg, model=c.model, info=c.info))
            if st.ncex >= 4 * max_cex:
                # the code under test is broken on many paths: enough evidence, stop this cell early
                st.paths += 1
                st.stopped_early = True
                break
        except Inconclusive as inc:
            st.inconclusive.append(str(inc))
            if len(st.inconclusive) > 3:
                break
        st.paths += 1
        st.queries += e.queries
        st.qtime += e.qtime
        st.realisations += e.realisations
        st.forks += e.forks
        st.proves += e.proves
        st.proved += e.proved
        st.concrete_proves += e.concrete_proves
        tr = e.trail
        while tr and tr[-1][1]:
            tr.pop()
        if not tr:
            break
        d, _, val = tr.pop()
        prefix = list(tr) + [(not d, True, val)]
        if st.paths >= max_paths:
            st.inconclusive.append(f"path budget {max_paths} exhausted")
            break
        if deadline is not None and time.time() > deadline:
            st.inconclusive.append("time budget exhausted")
            break
    if use_alarm:
        signal.signal(signal.SIGALRM, old_handler)
    return st


# ------------------------------------------------------------------------------------------------
def _lift(o):
    if isinstance(o, SymInt):
        return o.z
    if isinstance(o, SymBool):
        return z3.If(o.z, 1, 0)
    if isinstance(o, bool):
        return int(o)
    if isinstance(o, int):
        return o
    try:
        import numpy as _np
        if isinstance(o, _np.integer):
            return int(o)
    except Exception:  # pragma: no cover
        pass
    return None


class SymBool:
    def __init__(self, e: Engine, z):
        self.e = e
        self.z = z

    def __bool__(self):
        return self.e.branch(self.z)

    def _i(self):
        return SymInt(self.e, z3.If(self.z, 1, 0))

    def __and__(self, o):
        return SymBool(self.e, z3.And(self.z, _zb(o)))

    __rand__ = __and__

    def __or__(self, o):
        return SymBool(self.e, z3.Or(self.z, _zb(o)))

    __ror__ = __or__

    def __invert__(self):
        return SymBool(self.e, z3.Not(self.z))

    def __sub__(self, o):
        return self._i() - (o._i() if isinstance(o, SymBool) else o)

    def __rsub__(self, o):
        return o - self._i()

    def __add__(self, o):
        return self._i() + (o._i() if isinstance(o, SymBool) else o)

    __radd__ = __add__

    def __eq__(self, o):
        if isinstance(o, (SymBool, bool)):
            return SymBool(self.e, self.z == _zb(o))
        return self._i() == o

    def __ne__(self, o):
        r = self.__eq__(o)
        return ~r if isinstance(r, SymBool) else r

    def __gt__(self, o):
        return self._i() > o

    def __lt__(self, o):
        return self._i() < o

    def __ge__(self, o):
        return self._i() >= o

    def __le__(self, o):
        return self._i() <= o

    def __hash__(self):
        return hash(bool(self))

    def __index__(self):
        return int(bool(self))

    def __repr__(self):
        return f"SymBool({self.z})"

    def __deepcopy__(self, memo):
        return self


class SymInt:
    def __init__(self, e: Engine, z):
        self.e = e
        self.z = z

    def _b(self, o, f):
        lo = _lift(o)
        if lo is None:
            return NotImplemented
        return SymInt(self.e, z3.simplify(f(self.z, lo)) if False else f(self.z, lo))

    def _c(self, o, f):
        lo = _lift(o)
        if lo is None:
            return NotImplemented
        return SymBool(self.e, f(self.z, lo))

    def __add__(self, o):
        return self._b(o, lambda a, b: a + b)

    __radd__ = __add__

    def __sub__(self, o):
        return self._b(o, lambda a, b: a - b)

    def __rsub__(self, o):
        return self._b(o, lambda a, b: b - a)

    def __mul__(self, o):
        return self._b(o, lambda a, b: a * b)

    __rmul__ = __mul__

    def __neg__(self):
        return SymInt(self.e, -self.z)

    def __pos__(self):
        return self

    def _posdiv(self, o):
        lo = _lift(o)
        if lo is None:
            return None
        if isinstance(lo, int):
            if lo <= 0:
                raise Inconclusive("division by non-positive constant not modelled")
        else:
            # symbolic divisor: Python semantics == z3 semantics only for positive divisors
            if not self.e.branch(lo > 0):
                raise Inconclusive("division by non-positive symbolic value not modelled")
        return lo

    def __floordiv__(self, o):
        lo = self._posdiv(o)
        if lo is None:
            return NotImplemented
        return SymInt(self.e, self.z / lo)

    def __mod__(self, o):
        lo = self._posdiv(o)
        if lo is None:
            return NotImplemented
        return SymInt(self.e, self.z % lo)

    def __rmod__(self, o):
        lo = _lift(o)
        if lo is None:
            return NotImplemented
        if not self.e.branch(self.z > 0):
            raise Inconclusive("modulo by non-positive symbolic value not modelled")
        return SymInt(self.e, lo % self.z)

    def __rfloordiv__(self, o):
        lo = _lift(o)
        if lo is None:
            return NotImplemented
        if not self.e.branch(self.z > 0):
            raise Inconclusive("division by non-positive symbolic value not modelled")
        return SymInt(self.e, lo / self.z)

    def __ge__(self, o):
        return self._c(o, lambda a, b: a >= b)

    def __gt__(self, o):
        return self._c(o, lambda a, b: a > b)

    def __le__(self, o):
        return self._c(o, lambda a, b: a <= b)

    def __lt__(self, o):
        return self._c(o, lambda a, b: a < b)

    def __eq__(self, o):
        r = self._c(o, lambda a, b: a == b)
        return False if r is NotImplemented else r

    def __ne__(self, o):
        r = self._c(o, lambda a, b: a != b)
        return True if r is NotImplemented else r

    def __bool__(self):
        return self.e.branch(self.z != 0)

    def __index__(self):
        return self.e.realize(self.z)

    __int__ = __index__

    def __hash__(self):
        return hash(self.__index__())

    def __repr__(self):
        return f"SymInt({self.z})"

    def __deepcopy__(self, memo):
        return self

    def __copy__(self):
        return self


def z_of(x):
    """z3 term of a proxy or a Python int."""
    if isinstance(x, SymInt):
        return x.z
    if isinstance(x, SymBool):
        return x.z
    if isinstance(x, bool):
        return z3.BoolVal(x)
    return z3.IntVal(int(x))


# ------------------------------------------------------------------------------------------------
# Logical helpers usable in both symbolic and concrete (replay) mode.
def And(*cs):
    if all(isinstance(c, bool) for c in cs):
        return all(cs)
    return SymBool(_engine_of(cs), z3.And(*[_zb(c) for c in cs]))


def Or(*cs):
    if all(isinstance(c, bool) for c in cs):
        return any(cs)
    return SymBool(_engine_of(cs), z3.Or(*[_zb(c) for c in cs]))


def Not(c):
    if isinstance(c, bool):
        return not c
    return SymBool(c.e if isinstance(c, SymBool) else None, z3.Not(_zb(c)))


def Implies(a, b):
    return Or(Not(a), b)


def _engine_of(cs):
    for c in cs:
        if isinstance(c, (SymBool, SymInt)):
            return c.e
    return None


class ConcreteEngine:
    """Same interface as Engine, but every 'symbolic' input is the concrete value of a model.
    Used by replays: the harness scenario runs on the real code with plain Python values."""

    concrete = True

    def __init__(self, model: dict):
        self.model = dict(model)
        self.seen: dict[str, int] = {}
        self.nvars = 0
        self.notes: list = []
        self.proves = 0

    def _name(self, name):
        nm = f"{name}" if name not in self.seen else f"{name}#{self.nvars}"
        self.nvars += 1
        self.seen[nm] = 1
        return nm

    def fresh_int(self, name, lo=None, hi=None):
        nm = self._name(name)
        v = self.model.get(nm)
        if v is None:
            v = lo if lo is not None else 0
        return int(v)

    def fresh_bool(self, name):
        nm = self._name(name)
        return bool(self.model.get(nm, False))

    def choice(self, name, n):
        return self.fresh_int(name, 0, n - 1)

    def assume(self, cond):
        if not cond:
            raise Abort()

    def branch(self, cond, val=None):
        return bool(cond)

    def realize(self, x):
        return int(x)

    def prove(self, cond, msg="", info=None):
        self.proves += 1
        if not cond:
            raise CexFound(msg, self.model, info)

    def fail(self, msg="", info=None):
        raise CexFound(msg, self.model, info)

    def sample(self):
        return self.model


Engine.concrete = False
