"""Build the native extension / MIR from /repo/rust's CURRENT sources in a scratch copy (offline) and load it."""
from __future__ import annotations

import hashlib
import importlib.machinery
import importlib.util
import os
import shutil
import subprocess
import tempfile
import time
from pathlib import Path

from . import common

_CACHE: dict = {}


def source_digest():
    h = hashlib.sha1()
    for p in sorted((common.REPO / "rust").glob("src/*.rs")) + [common.REPO / "rust" / "Cargo.toml", common.REPO / "rust" / "Cargo.lock"]:
        h.update(p.name.encode())
        h.update(p.read_bytes())
    return h.hexdigest()[:12]


def _scratch_copy(with_target=True):
    base = os.environ.get("VT_SCRATCH") or tempfile.gettempdir()
    d = Path(tempfile.mkdtemp(prefix="vt_rust_", dir=base))
    src = common.REPO / "rust"
    args = ["rsync", "-a"]
    if not with_target:
        args += ["--exclude", "target"]
    subprocess.run(args + [str(src) + "/", str(d / "rust") + "/"], check=True)
    return d


def build_extension():
    """Returns (module, info).  The module is the freshly built _sedpack_rs; nothing is written into /repo."""
    key = ("ext", source_digest())
    if key in _CACHE:
        return _CACHE[key]
    t0 = time.time()
    d = _scratch_copy(with_target=True)
    try:
        env = dict(os.environ, CARGO_NET_OFFLINE="true")
        r = subprocess.run(["cargo", "build", "--release", "--offline", "--features", "pyo3/extension-module"],
                           cwd=d / "rust", capture_output=True, text=True, env=env, timeout=1500)
        if r.returncode != 0:
            raise RuntimeError("cargo build failed:\n" + r.stderr[-2000:])
        so = d / "rust" / "target" / "release" / "libsedpack_rs.so"
        dst = d / "_sedpack_rs.cpython-312-x86_64-linux-gnu.so"
        shutil.copy(so, dst)
        loader = importlib.machinery.ExtensionFileLoader("_sedpack_rs", str(dst))
        spec = importlib.util.spec_from_file_location("_sedpack_rs", str(dst), loader=loader)
        mod = importlib.util.module_from_spec(spec)
        loader.exec_module(mod)
    finally:
        shutil.rmtree(d, ignore_errors=True)
    info = dict(source_digest=key[1], build_s=round(time.time() - t0, 1))
    _CACHE[key] = (mod, info)
    return mod, info


def emit_mir():
    """Returns (mir text, info) for the crate (debug profile), built offline in a scratch copy."""
    key = ("mir", source_digest())
    if key in _CACHE:
        return _CACHE[key]
    t0 = time.time()
    d = _scratch_copy(with_target=True)
    try:
        env = dict(os.environ, CARGO_NET_OFFLINE="true")
        r = subprocess.run(["cargo", "rustc", "--offline", "--lib", "--crate-type", "rlib", "--", "--emit=mir"],
                           cwd=d / "rust", capture_output=True, text=True, env=env, timeout=1500)
        if r.returncode != 0:
            raise RuntimeError("cargo rustc --emit=mir failed:\n" + r.stderr[-2000:])
        mirs = sorted((d / "rust" / "target" / "debug" / "deps").glob("sedpack_rs-*.mir"), key=lambda p: p.stat().st_mtime)
        if not mirs:
            raise RuntimeError("no MIR file produced")
        text = mirs[-1].read_text()
    finally:
        shutil.rmtree(d, ignore_errors=True)
    info = dict(source_digest=key[1], build_s=round(time.time() - t0, 1), mir_bytes=len(text))
    _CACHE[key] = (text, info)
    return text, info


def build_so():
    """Path of a freshly built extension file that stays on disk until this process exits (for sub-processes)."""
    import atexit
    key = ("so", source_digest())
    if key in _CACHE:
        return _CACHE[key]
    t0 = time.time()
    d = _scratch_copy(with_target=True)
    try:
        env = dict(os.environ, CARGO_NET_OFFLINE="true")
        r = subprocess.run(["cargo", "build", "--release", "--offline", "--features", "pyo3/extension-module"],
                           cwd=d / "rust", capture_output=True, text=True, env=env, timeout=1500)
        if r.returncode != 0:
            raise RuntimeError("cargo build failed:\n" + r.stderr[-2000:])
        base = os.environ.get("VT_SCRATCH") or tempfile.gettempdir()
        keep = Path(tempfile.mkdtemp(prefix="vt_ext_", dir=base))
        dst = keep / "_sedpack_rs.cpython-312-x86_64-linux-gnu.so"
        shutil.copy(d / "rust" / "target" / "release" / "libsedpack_rs.so", dst)
    finally:
        shutil.rmtree(d, ignore_errors=True)
    atexit.register(lambda: shutil.rmtree(keep, ignore_errors=True))
    info = dict(source_digest=key[1], build_s=round(time.time() - t0, 1))
    _CACHE[key] = (str(dst), info)
    return _CACHE[key]


def load_so(path):
    loader = importlib.machinery.ExtensionFileLoader("_sedpack_rs", str(path))
    spec = importlib.util.spec_from_file_location("_sedpack_rs", str(path), loader=loader)
    mod = importlib.util.module_from_spec(spec)
    loader.exec_module(mod)
    return mod
