"""Run independent exploration cells on all cores (each cell = one symx exploration)."""
from __future__ import annotations

import multiprocessing as mp
import os
import traceback

from .symx import Stats


def _call(args):
    fn, cell = args
    try:
        st = fn(cell)
        return cell, st, None
    except BaseException as exc:  # noqa: BLE001
        return cell, None, f"{type(exc).__name__}: {exc}\n{traceback.format_exc()[-1500:]}"


def run_cells(fn, cells, procs=None):
    """fn(cell) -> Stats (picklable).  Returns (merged Stats, per-cell list, errors)."""
    procs = procs or min(len(cells), os.cpu_count() or 4) or 1
    total = Stats()
    per_cell = []
    errors = []
    if procs <= 1 or len(cells) <= 1:
        results = map(_call, [(fn, c) for c in cells])
    else:
        ctx = mp.get_context("fork")
        pool = ctx.Pool(procs)
        results = pool.imap_unordered(_call, [(fn, c) for c in cells], chunksize=1)
    for cell, st, err in results:
        if err:
            errors.append(f"cell {cell}: {err}")
            continue
        # say which cell an unnamed inconclusive outcome (time budget) belongs to
        st.inconclusive = [f"{m} [cell {cell}]" if ("budget" in str(m) and "[cell" not in str(m)) else m for m in st.inconclusive]
        total.merge(st)
        per_cell.append((cell, st.paths, st.proves))
    if procs > 1 and len(cells) > 1:
        pool.close()
        pool.join()
    return total, per_cell, errors
