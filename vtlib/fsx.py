"""fsx - file-system interposer for crash-point exploration (DESIGN.md 2.2).

While active it numbers every file-system EFFECT of the writer on the real scratch directory: open-for-write,
each write() call, close of a written file, os.replace / os.rename, os.mkdir, os.unlink.  `crash_at=k` kills the
writer at effect k: the effect itself does not happen (for a write(): only a prefix of the data, see `torn`),
files open for writing at that instant keep only a prefix of what was written to them (buffered data is lost),
and from that instant the writer is DEAD: every later effect it attempts while the exception unwinds
(finally blocks, __exit__ methods) is dropped.
"""
from __future__ import annotations

import builtins
import io
import os


class Crash(BaseException):
    """The writing process dies here."""


class _Sink:
    """What a dead writer gets from open(): accepts everything, touches nothing."""

    def __init__(self, binary):
        self.binary = binary
        self.closed = False
        self.name = "<dead>"

    def write(self, data):
        return len(data)

    def __enter__(self):
        return self

    def __exit__(self, *a):
        self.closed = True
        return False

    def close(self):
        self.closed = True

    def flush(self):
        pass

    def tell(self):
        return 0

    def seek(self, *a):
        return 0

    def seekable(self):
        return True

    def writable(self):
        return True

    def readable(self):
        return False

    def fileno(self):
        raise OSError("dead writer")

    def truncate(self, *a):
        return 0


class _WFile:
    """Proxy around a real file opened for writing: every write/close is an effect."""

    def __init__(self, fsx, real, path):
        self._fsx, self._real, self._path = fsx, real, path
        self._written = 0

    def write(self, data):
        fsx = self._fsx
        if fsx.dead:
            return len(data)
        if fsx.effect("write", self._path):
            # torn write: only a prefix of this call's data reaches the file
            cut = fsx.torn_cut(len(data))
            if cut:
                self._real.write(data[:cut])
            fsx.die()
        n = self._real.write(data)
        self._written += len(data)
        return n

    def close(self):
        fsx = self._fsx
        if self._real.closed:
            return
        if fsx.dead:
            self._abandon()
            return
        if fsx.effect("close", self._path):
            fsx.die()
        self._real.close()
        fsx.open_files.pop(id(self), None)

    def _abandon(self):
        """The process died with this file open: buffered data is lost; keep a prefix (see Fsx.torn)."""
        try:
            # whatever name the file has by now (it may have been renamed while open): cut it through its descriptor
            self._real.flush()
            fd = self._real.fileno()
            size = os.fstat(fd).st_size
            os.ftruncate(fd, self._fsx.torn_cut(size))
            self._real.close()
        except Exception:  # noqa: BLE001
            pass
        self._fsx.torn_files.add(str(self._path))
        self._fsx.open_files.pop(id(self), None)

    def __enter__(self):
        return self

    def __exit__(self, *a):
        self.close()
        return False

    def __getattr__(self, name):
        return getattr(self._real, name)

    def __iter__(self):
        return iter(self._real)


io_open_real = io.open


class Fsx:
    def __init__(self, root, crash_at=None, torn="half"):
        self.root = str(root)
        self.crash_at = crash_at
        self.torn = torn  # which prefix of in-flight data survives: "none" | "half" | "almost"
        self.counter = 0
        self.dead = False
        self.log = []
        self.open_files = {}
        self.torn_files = set()
        self._saved = None
        self.snapshot_to = None  # directory receiving one copy of the root per instant (for concurrent-reader checks)
        self.mkdir_race = None  # predicate(relpath): this mkdir loses a race against another process
        self.actor = None  # who performs the effects (set by the harness, e.g. the writer index)
        self.reads = []  # (actor, relative path) of files opened for reading inside the root
        self.writes = []  # (actor, kind, relative path)

    def torn_cut(self, n):
        return {"none": 0, "half": n // 2, "almost": max(n - 1, 0)}[self.torn]

    def inside(self, path):
        try:
            return os.path.abspath(os.fspath(path)).startswith(self.root)
        except TypeError:
            return False

    def effect(self, kind, path):
        """Registers an effect; returns True if the writer dies AT this effect (before it takes place)."""
        k = self.counter
        if self.snapshot_to is not None and not self.dead:
            # the directory as it is at instant k (before effect k); flushed data only - what another process can see
            import shutil
            for wf in self.open_files.values():
                try:
                    wf._real.flush()
                except Exception:  # noqa: BLE001
                    pass
            shutil.copytree(self.root, os.path.join(self.snapshot_to, str(k)))
        self.counter += 1
        self.log.append((k, kind, os.path.relpath(os.fspath(path), self.root)))
        self.writes.append((self.actor, kind, os.path.relpath(os.fspath(path), self.root)))
        return self.crash_at is not None and k == self.crash_at

    def die(self):
        self.dead = True
        for wf in list(self.open_files.values()):
            wf._abandon()
        raise Crash()

    # ---- patched entry points
    def _open(self, file, mode="r", *a, **k):
        if isinstance(file, int) or not any(c in mode for c in "wax+") or not self.inside(file):
            if not isinstance(file, int) and self.inside(file):
                self.reads.append((self.actor, os.path.relpath(os.fspath(file), self.root)))
            return io_open_real(file, mode, *a, **k)
        if self.dead:
            return _Sink("b" in mode)
        if self.effect("open-w", file):
            self.die()
        real = io_open_real(file, mode, *a, **k)
        wf = _WFile(self, real, os.fspath(file))
        self.open_files[id(wf)] = wf
        return wf

    def _wrap(self, name, real):
        def f(src, *a, **k):
            if not self.inside(src):
                return real(src, *a, **k)
            if self.dead:
                return None
            if self.effect(name, src):
                self.die()
            return real(src, *a, **k)
        return f

    def _mkdir(self, path, *a, **k):
        if not self.inside(path):
            return self._saved["os.mkdir"](path, *a, **k)
        if self.dead:
            if not os.path.isdir(path):
                raise FileNotFoundError(path)
            return None
        if os.path.isdir(path):
            return self._saved["os.mkdir"](path, *a, **k)  # raises FileExistsError, not an effect
        if self.effect("mkdir", path):
            self.die()
        r = self._saved["os.mkdir"](path, *a, **k)
        if self.mkdir_race is not None and self.mkdir_race(os.path.relpath(os.fspath(path), self.root)):
            # as if another process had created the same directory an instant earlier
            raise FileExistsError(17, "File exists (lost the race with another writer)", os.fspath(path))
        return r

    def __enter__(self):
        self._saved = {"builtins.open": builtins.open, "io.open": io.open, "os.replace": os.replace, "os.rename": os.rename,
                       "os.mkdir": os.mkdir, "os.unlink": os.unlink, "os.remove": os.remove}
        builtins.open = self._open
        io.open = self._open
        os.replace = self._wrap("replace", self._saved["os.replace"])
        os.rename = self._wrap("rename", self._saved["os.rename"])
        os.unlink = self._wrap("unlink", self._saved["os.unlink"])
        os.remove = self._wrap("unlink", self._saved["os.remove"])
        os.mkdir = self._mkdir
        return self

    def __exit__(self, *a):
        builtins.open = self._saved["builtins.open"]
        io.open = self._saved["io.open"]
        os.replace, os.rename = self._saved["os.replace"], self._saved["os.rename"]
        os.mkdir, os.unlink, os.remove = self._saved["os.mkdir"], self._saved["os.unlink"], self._saved["os.remove"]
        for wf in list(self.open_files.values()):
            wf._abandon()
        return False
