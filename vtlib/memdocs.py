"""memdocs - in-memory documents so that metadata counts can stay symbolic (DESIGN.md 2.2).

JSON (de)serialisation of the metadata models runs inside pydantic-core (compiled) and would realise
symbolic integers.  Under `memfs()`:
  * model_dump_json of ShardsList / DatasetInfo returns a `Doc` (str subclass carrying a deep copy of the model),
    model_validate_json returns a deep copy of the carried model;
  * the ShardListInfo(...) constructor call inside shard_file_metadata is routed to model_construct after running
    the declared field validators explicitly (pydantic-core's int coercion would call __index__);
  * utils.open / Path.replace/mkdir/is_file/read_text/resolve act on an in-memory file table;
  * utils.hash_checksums returns tokens alg:content-identity (injective by construction).
Everything else (the models' Python code, merge logic, filler logic, path handling) is the real code.
"""
from __future__ import annotations

import contextlib
import copy
from pathlib import Path


class Doc(str):
    obj = None
    serial = 0


class MemFS:
    def __init__(self):
        self.files: dict[str, Doc] = {}
        self.log: list = []
        self.counter = 0

    def mkdoc(self, obj):
        self.counter += 1
        d = Doc(f"<doc #{self.counter}>")
        d.obj = copy.deepcopy(obj)
        d.serial = self.counter
        return d


@contextlib.contextmanager
def memfs():
    import sedpack.io.metadata as MD
    import sedpack.io.shard_file_metadata as M
    import sedpack.io.utils as U
    fs = MemFS()
    real_sli = M.ShardListInfo

    def run_validators(cls, field, value):
        for name, dec in cls.__pydantic_decorators__.field_validators.items():
            if field in dec.info.fields or "*" in dec.info.fields:
                value = getattr(cls, name)(value)
        return value

    def SLI(**kw):
        kw["shard_list_info_file"] = run_validators(real_sli, "shard_list_info_file", kw["shard_list_info_file"])
        kw.setdefault("number_of_examples", 0)
        kw.setdefault("number_of_shards", 0)
        return real_sli.model_construct(**kw)

    class MemFile:
        def __init__(self, p, mode):
            self.p, self.mode = str(p), mode

        def __enter__(self):
            return self

        def __exit__(self, *a):
            return False

        def write(self, data):
            if not isinstance(data, Doc):
                raise TypeError("memdocs: only documents produced by model_dump_json can be written")
            fs.files[self.p] = data
            fs.log.append(("write", self.p))

    def mem_open(p, mode="r", **kw):
        return MemFile(p, mode)

    def mem_hash(file_path, hashes):
        doc = fs.files[str(file_path)]
        return tuple(f"{h}:{doc.serial}" for h in hashes)

    saved = []

    def patch(obj, name, value):
        saved.append((obj, name, obj.__dict__.get(name, _MISSING)))
        setattr(obj, name, value)

    patch(M.ShardsList, "model_dump_json", lambda self, **kw: fs.mkdoc(self))
    patch(M.ShardsList, "model_validate_json", classmethod(lambda cls, doc, **kw: copy.deepcopy(doc.obj)))
    patch(MD.DatasetInfo, "model_dump_json", lambda self, **kw: fs.mkdoc(self))
    patch(MD.DatasetInfo, "model_validate_json", classmethod(lambda cls, doc, **kw: copy.deepcopy(doc.obj)))
    patch(M, "ShardListInfo", SLI)
    patch(U, "open", mem_open)
    patch(U, "hash_checksums", mem_hash)

    def p_replace(self, target):
        fs.files[str(target)] = fs.files.pop(str(self))
        fs.log.append(("replace", str(self), str(target)))

    patch(Path, "replace", p_replace)
    patch(Path, "mkdir", lambda self, **kw: None)
    patch(Path, "is_file", lambda self: str(self) in fs.files)
    patch(Path, "read_text", lambda self, **kw: fs.files[str(self)])
    patch(Path, "resolve", lambda self, **kw: self)
    try:
        yield fs
    finally:
        for obj, name, old in reversed(saved):
            if old is _MISSING:
                try:
                    delattr(obj, name)
                except AttributeError:
                    pass
            else:
                setattr(obj, name, old)


_MISSING = object()
