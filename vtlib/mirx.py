"""mirx - an interpreter over rustc's MIR text for rust/src/parallel_map.rs (DESIGN.md 2.4).

The four functions that implement the native reader's thread protocol (parallel_map, its worker closure,
ParallelMap::next, Drop::drop, plus new_pair) are interpreted straight from the MIR that
`cargo rustc -- --emit=mir` produces for the CURRENT sources.  Threads are coroutines; std::sync::mpsc channels,
thread::spawn, JoinHandle::join, Vec, Range and Option/Result are given their library semantics by a whitelist of
callees; anything else makes the check Inconclusive (never a wrong verdict).  Integers can be z3 bit-vectors
(64-bit usize) for the inductive index-arithmetic step.

Why one schedule is enough: with only blocking recv / send / join / spawn / drop on single-producer single-consumer
channels and no shared state, the threads form a Kahn process network, whose observable behaviour (the sequence each
channel carries, hence every value next() returns, termination, and deadlock) is the same under EVERY interleaving.
`kahn_audit` checks exactly that premise on the MIR (the callee whitelist contains no polling / timed / shared-state
primitive); a timed or polling primitive is reported as schedule dependence.
"""
from __future__ import annotations

import re

import z3

from .symx import Inconclusive

# ------------------------------------------------------------------------------------------------ parsing


def functions(mir: str) -> dict:
    out = {}
    for m in re.finditer(r"^fn (.+?)\((.*?)\) -> (.+?) \{\n", mir, re.M):
        start = m.start()
        end = mir.index("\n}\n", start)
        out[m.group(1)] = dict(text=mir[start:end + 3], args=m.group(2))
    return out


def parse_blocks(txt):
    blocks = {}
    for m in re.finditer(r"^    (bb\d+)(?: \(cleanup\))?: \{\n(.*?)^    \}", txt, re.M | re.S):
        blocks[m.group(1)] = [l.strip() for l in m.group(2).split("\n") if l.strip()]
    return blocks


def strip_generics(s):
    out, d = [], 0
    for ch in s:
        if ch == "<":
            d += 1
        elif ch == ">":
            d -= 1
        elif d == 0:
            out.append(ch)
    return "".join(out)


def callee_key(c):
    c = c.strip()
    if c.startswith("<"):
        d = 0
        for i, ch in enumerate(c):
            if ch == "<":
                d += 1
            elif ch == ">":
                d -= 1
                if d == 0:
                    break
        inner, rest = c[1:i], c[i + 1:]
        return re.sub(r"::$", "", re.sub(r":{3,}", "::", strip_generics(inner).replace("&", "").replace("mut ", "").strip() + strip_generics(rest)))
    return re.sub(r"::$", "", re.sub(r":{3,}", "::", strip_generics(c)))


def split_top(s, sep=","):
    parts, d, cur = [], 0, []
    for ch in s:
        if ch in "([{<":
            d += 1
        if ch in ")]}>":
            d -= 1
        if ch == sep and d == 0:
            parts.append("".join(cur).strip())
            cur = []
        else:
            cur.append(ch)
    if "".join(cur).strip():
        parts.append("".join(cur).strip())
    return parts


def has_top_colon(inner):
    d = 0
    for i, ch in enumerate(inner):
        if ch in "(<[":
            d += 1
        elif ch in ")>]":
            d -= 1
        elif ch == ":" and d == 0 and inner[i + 1:i + 2] == " ":
            return True
    return False


def split_field(inner):
    d = 0
    for i, ch in enumerate(inner):
        if ch in "(<[":
            d += 1
        elif ch in ")>]":
            d -= 1
        elif ch == ":" and d == 0 and inner[i + 1] == " ":
            left = inner[:i]
            j = left.rfind(".")
            return left[:j], int(left[j + 1:])
    raise Inconclusive("MIR field projection " + inner)


# ------------------------------------------------------------------------------------------------ values
class Enum:
    def __init__(self, variant, payload=()):
        self.variant, self.payload = variant, list(payload)

    def __repr__(self):
        return f"{self.variant}{tuple(self.payload) if self.payload else ''}"


DISC = {"None": 0, "Some": 1, "Ok": 0, "Err": 1}


class Struct:
    def __init__(self, fields, default=None):
        self.f = dict(fields)
        self.default = default

    def get(self, k):
        if k in self.f:
            return self.f[k]
        if self.default is not None:
            return self.default  # rustc's pretty printer truncates closure captures (see DESIGN.md 2.4)
        raise Inconclusive(f"MIR field {k} of {self}")

    def __repr__(self):
        return f"S{self.f}"


class Chan:
    def __init__(self, name, cap=None):
        self.name = name
        self.cap = cap  # None = unbounded (mpsc::channel); n = mpsc::sync_channel(n)
        self.q = []
        self.tx_dropped = False
        self.rx_dropped = False
        self.sent = 0
        self.received = 0


class End:
    def __init__(self, chan, side):
        self.chan, self.side = chan, side

    def __repr__(self):
        return f"{self.chan.name}.{self.side}"


class Handle:
    def __init__(self, thread):
        self.thread = thread


class Panic(Exception):
    def __init__(self, msg):
        super().__init__(msg)
        self.msg = msg


class Block:
    """Yielded by a thread coroutine that cannot proceed."""

    def __init__(self, why, ready):
        self.why, self.ready = why, ready


SAFE_BLOCKING = ("Receiver::recv", "Sender::send", "SyncSender::send", "JoinHandle::join", "spawn", "mpsc::channel", "mpsc::sync_channel")
TIMING = ("recv_timeout", "try_recv", "recv_deadline", "try_iter", "sleep", "park", "Instant", "SystemTime", "try_send", "is_finished",
          "Mutex", "RwLock", "Atomic", "Condvar", "yield_now", "select")


def kahn_audit(fns: dict, names) -> list:
    """Callees in the protocol functions that make behaviour depend on timing / shared state."""
    bad = []
    for n in names:
        for line in fns[n]["text"].split("\n"):
            m = re.search(r"= (.*?)\(.*\) -> \[return", line)
            if not m:
                continue
            key = callee_key(m.group(1))
            for t in TIMING:
                if t in key:
                    bad.append((n, key.strip()))
    return bad


# ------------------------------------------------------------------------------------------------ world
class Thread:
    def __init__(self, name, gen):
        self.name, self.gen = name, gen
        self.done = False
        self.panicked = None
        self.blocked = None


class World:
    def __init__(self, fns, items, fail_item=None, symbolic=None):
        self.fns = fns
        self.blocks = {}
        self.items = list(items)
        self.next_item = 0
        self.fail_item = fail_item
        self.threads = []
        self.chans = []
        self.log = []
        self.symbolic = symbolic  # z3 solver context for the index step (None = concrete run)
        self.fun_calls = []
        self.max_in_flight = 0

    def blocks_of(self, name):
        if name not in self.blocks:
            self.blocks[name] = parse_blocks(self.fns[name]["text"])
        return self.blocks[name]

    def find(self, pattern):
        c = [n for n in self.fns if re.search(pattern, n)]
        if len(c) != 1:
            raise Inconclusive(f"MIR function {pattern}: {len(c)} candidates")
        return c[0]

    def spawn(self, name, gen):
        t = Thread(name, gen)
        self.threads.append(t)
        return t

    def in_flight(self):
        sent = sum(c.sent for c in self.chans if c.name.startswith("tasks"))
        # tasks handed out (Some) minus results taken back by the consumer
        return sent

    def run(self, main, fuel=20000):
        """Round-robin until every thread is done or blocked.  Returns 'done' | 'deadlock'."""
        mt = self.spawn("main", main)
        while fuel:
            progressed = False
            for t in list(self.threads):
                if t.done:
                    continue
                if t.blocked is not None and not t.blocked.ready():
                    continue
                t.blocked = None
                try:
                    fuel -= 1
                    r = next(t.gen)
                    progressed = True
                    if isinstance(r, Block):
                        t.blocked = r
                except StopIteration:
                    t.done = True
                    progressed = True
                except Panic as p:
                    t.done = True
                    t.panicked = p.msg
                    progressed = True
                    self.log.append(("thread-panicked", t.name, p.msg))
            if all(t.done for t in self.threads):
                return "done"
            if not progressed:
                if mt.done:
                    return "leak"
                return "deadlock"
        raise Inconclusive("MIR interpreter: fuel exhausted")


# ------------------------------------------------------------------------------------------------ interpreter
class Interp:
    def __init__(self, world: World, fname, env, tname="main"):
        self.w, self.fname, self.env, self.tname = world, fname, env, tname
        self.b = world.blocks_of(fname)
        self.unwinding = None

    # ---- places
    def place_get(self, p):
        p = p.strip()
        if re.fullmatch(r"_\d+", p):
            if p not in self.env:
                raise Inconclusive(f"MIR local {p} read before assignment in {self.fname}")
            return self.env[p]
        if p.startswith("(*") and p.endswith(")"):
            return self.place_get(p[2:-1])
        if p.startswith("*"):
            return self.place_get(p[1:])
        if p.startswith("(") and p.endswith(")"):
            inner = p[1:-1]
            if has_top_colon(inner):
                base, k = split_field(inner)
                v = self.place_get(base)
                if isinstance(v, Enum):
                    return v.payload[k]
                if isinstance(v, Struct):
                    return v.get(k)
                if isinstance(v, tuple):
                    return v[k]
                raise Inconclusive(f"MIR projection .{k} of {type(v).__name__}")
            m = re.match(r"(.*) as (\w+)$", inner)
            if m:
                v = self.place_get(m.group(1))
                if not isinstance(v, Enum) or v.variant != m.group(2):
                    raise Inconclusive(f"MIR downcast of {v} to {m.group(2)}")
                return v
        raise Inconclusive("MIR place " + p)

    def place_set(self, p, val):
        p = p.strip()
        if re.fullmatch(r"_\d+", p):
            self.env[p] = val
            return
        if p.startswith("(*") and p.endswith(")"):
            inner = p[2:-1]
            if re.fullmatch(r"_\d+", inner):
                raise Inconclusive("MIR store through a reference to a scalar")
            return self.place_set(inner, val)
        if p.startswith("(") and p.endswith(")"):
            base, k = split_field(p[1:-1])
            tgt = self.place_get(base)
            if isinstance(tgt, Struct):
                tgt.f[k] = val
                return
        raise Inconclusive("MIR place (store) " + p)

    def operand(self, o):
        o = o.strip()
        if o.startswith(("copy ", "move ")):
            return self.place_get(o[5:])
        if o.startswith("const "):
            c = o[6:]
            m = re.match(r"(\d+)_(usize|u64|u32|i32|i64|u8|isize)", c)
            if m:
                return int(m.group(1))
            if c in ("true", "false"):
                return c == "true"
            return c
        raise Inconclusive("MIR operand " + o)

    # ---- integer ops (concrete ints or z3 BV64)
    def binop(self, op, a, b):
        sym = isinstance(a, z3.ExprRef) or isinstance(b, z3.ExprRef)
        if not sym:
            if op == "Eq":
                return a == b
            if op == "Ne":
                return a != b
            if op == "Rem":
                return a % b
            if op == "Ge":
                return a >= b
            if op == "Gt":
                return a > b
            if op == "Lt":
                return a < b
            if op == "Le":
                return a <= b
            if op == "AddWithOverflow":
                s = a + b
                return (s % (1 << 64), s >= (1 << 64))
            if op == "Add":
                return (a + b) % (1 << 64)
            if op == "SubWithOverflow":
                return ((a - b) % (1 << 64), a < b)
            if op == "Sub":
                return (a - b) % (1 << 64)
            raise Inconclusive("MIR binary op " + op)
        A = a if isinstance(a, z3.ExprRef) else z3.BitVecVal(a, 64)
        B = b if isinstance(b, z3.ExprRef) else z3.BitVecVal(b, 64)
        if op == "Eq":
            return A == B
        if op == "Ne":
            return A != B
        if op == "Rem":
            return z3.URem(A, B)
        if op == "Ge":
            return z3.UGE(A, B)
        if op == "Gt":
            return z3.UGT(A, B)
        if op == "Lt":
            return z3.ULT(A, B)
        if op == "Le":
            return z3.ULE(A, B)
        if op == "AddWithOverflow":
            return (A + B, z3.Not(z3.BVAddNoOverflow(A, B, False)))
        if op == "Add":
            return A + B
        raise Inconclusive("MIR symbolic binary op " + op)

    def rvalue(self, r):
        r = r.strip()
        if r.startswith("&mut "):
            return self.place_get(r[5:])
        if r.startswith("&raw "):
            raise Inconclusive("raw pointer")
        if r.startswith("&"):
            return self.place_get(r[1:])
        if r.startswith(("copy ", "move ", "const ")):
            return self.operand(r)
        m = re.match(r"discriminant\((.*)\)$", r)
        if m:
            v = self.place_get(m.group(1))
            if not isinstance(v, Enum):
                raise Inconclusive(f"discriminant of {type(v).__name__}")
            return DISC[v.variant]
        m = re.match(r"Not\((.*)\)$", r)
        if m:
            v = self.operand(m.group(1))
            return z3.Not(v) if isinstance(v, z3.ExprRef) else (not v)
        m = re.match(r"(\w+)\((.*)\)$", r)
        if m and m.group(1) in ("Eq", "Ne", "Rem", "Ge", "Gt", "Lt", "Le", "AddWithOverflow", "Add", "SubWithOverflow", "Sub"):
            a, b = [self.operand(x) for x in split_top(m.group(2))]
            return self.binop(m.group(1), a, b)
        g = strip_generics(r)
        m = re.match(r"(?:std::option::)?Option::+(Some|None)(?:\((.*)\))?$", g)
        if m:
            return Enum(m.group(1), [self.operand(m.group(2))] if m.group(2) else [])
        m = re.match(r"(?:std::result::)?Result::+(Ok|Err)(?:\((.*)\))?$", g)
        if m:
            return Enum(m.group(1), [self.operand(m.group(2))] if m.group(2) else [])
        if r.startswith("(") and r.endswith(")"):
            return tuple(self.operand(x) for x in split_top(r[1:-1]))
        if r.startswith("{closure"):
            body = r[r.index("{", r.index("}") + 1) + 1:r.rindex("}")]
            fields = [x.split(": ", 1)[1] for x in split_top(body)]
            # rustc prints fewer operands than the closure captures (names are zipped with operands): the remaining
            # capture of the worker closure is the mapped function pointer, parameter _1 of parallel_map
            return Struct({i: self.operand(f) for i, f in enumerate(fields)}, default=self.env.get("_1"))
        m = re.match(r"(.*?)\s*\{(.*)\}$", r, re.S)
        if m:
            fields = [x.split(": ", 1)[1] for x in split_top(m.group(2))]
            return Struct({i: self.operand(f) for i, f in enumerate(fields)})
        raise Inconclusive("MIR rvalue " + r)

    # ---- drops
    def drop_value(self, v, seen=None):
        seen = seen if seen is not None else set()
        if id(v) in seen:
            return
        seen.add(id(v))
        if isinstance(v, End):
            ch = v.chan
            if v.side == "tx":
                ch.tx_dropped = True
            else:
                ch.rx_dropped = True
            self.w.log.append(("drop-end", self.tname, repr(v)))
        elif isinstance(v, Struct):
            for x in list(v.f.values()):
                self.drop_value(x, seen)
        elif isinstance(v, (list, tuple)):
            for x in v:
                self.drop_value(x, seen)
        elif isinstance(v, Enum):
            for x in v.payload:
                self.drop_value(x, seen)

    # ---- calls
    def call(self, callee, args):
        """Generator: yields Block objects while waiting; returns the call's value."""
        w = self.w
        a = [self.operand(x) for x in split_top(args)]
        cal = callee.strip()
        if re.fullmatch(r"(move|copy) _\d+", cal):  # call through a function pointer: the mapped function
            fn = self.operand(cal)
            if fn != "FUN":
                raise Inconclusive(f"indirect call of {fn}")
            w.fun_calls.append((self.tname, a[0]))
            w.log.append(("call-fun", self.tname, a[0]))
            if w.fail_item is not None and a[0] == w.fail_item:
                raise Panic(f"mapped function panicked on item {a[0]}")
            return ("res", a[0])
        g = callee_key(callee)
        if re.search(r"Receiver::+recv$", g):
            end = a[0]
            ch = end.chan
            while True:
                if ch.q:
                    v = ch.q.pop(0)
                    ch.received += 1
                    w.log.append(("recv", self.tname, ch.name, repr(v)))
                    return Enum("Ok", [v])
                if ch.tx_dropped:
                    w.log.append(("recv", self.tname, ch.name, "Err(disconnected)"))
                    return Enum("Err", ["RecvError"])
                yield Block(f"recv {ch.name}", lambda ch=ch: bool(ch.q) or ch.tx_dropped)
        if re.search(r"Sender::+send$", g):
            end, v = a[0], a[1]
            ch = end.chan
            while ch.cap is not None and len(ch.q) >= max(ch.cap, 1) and not ch.rx_dropped:
                # bounded channel: the sender blocks while the buffer is full (capacity 0 is approximated by 1)
                yield Block(f"send {ch.name} (full)", lambda ch=ch: len(ch.q) < max(ch.cap, 1) or ch.rx_dropped)
            if ch.rx_dropped:
                w.log.append(("send", self.tname, ch.name, repr(v), "Err"))
                return Enum("Err", [v])
            ch.q.append(v)
            ch.sent += 1
            w.log.append(("send", self.tname, ch.name, repr(v), "Ok"))
            return Enum("Ok", [()])
        if g.endswith("mpsc::sync_channel"):
            if not isinstance(a[0], int):
                raise Inconclusive("sync_channel with a non-constant bound")
            ch = Chan(f"chan{len(w.chans)}", cap=a[0])
            w.chans.append(ch)
            return (End(ch, "tx"), End(ch, "rx"))
        if g.endswith("mpsc::channel"):
            ch = Chan(f"chan{len(w.chans)}")
            w.chans.append(ch)
            return (End(ch, "tx"), End(ch, "rx"))
        if g.endswith("new_pair"):
            name = w.find(r"::new_pair$")
            sub = Interp(w, name, {}, self.tname)
            r = yield from sub.run()
            k = len([c for c in w.chans]) // 2 - 1
            # name the two channels of this pair for readable schedules
            pm, th = r
            pm.get(0).chan.name, th.get(0).chan.name = f"tasks{k}", f"results{k}"
            return r
        if g.endswith("Vec::new") or g == "Vec::new":
            return []
        if g.endswith("::push"):
            a[0].append(a[1])
            return ()
        if g.endswith("::pop"):
            return Enum("Some", [a[0].pop()]) if a[0] else Enum("None")
        if g.endswith("::clear"):
            for c in a[0]:
                self.drop_value(c)
            del a[0][:]
            return ()
        if g.endswith("is_empty"):
            return self._len(a[0], "is_empty")
        if g.endswith("::len"):
            return self._len(a[0], "len")
        if g.endswith("::index") or g.endswith("::index_mut"):
            return self._index(a[0], a[1])
        if g.endswith("into_iter"):
            if isinstance(a[0], Struct):
                return a[0]
            return Struct({"seq": a[0], "i": 0})
        if "Range" in g and g.endswith("::next"):
            r_ = a[0]
            lo, hi = r_.get(0), r_.get(1)
            if lo < hi:
                r_.f[0] = lo + 1
                return Enum("Some", [lo])
            return Enum("None")
        if "slice::Iter" in g and g.endswith("::next"):
            it_ = a[0]
            if it_.f["i"] < len(it_.f["seq"]):
                it_.f["i"] += 1
                return Enum("Some", [it_.f["seq"][it_.f["i"] - 1]])
            return Enum("None")
        if g.startswith("I as") and g.endswith("::next"):
            if a[0] != "ITER":
                raise Inconclusive("Iterator::next on something that is not the input iterator")
            if w.next_item < len(w.items):
                w.next_item += 1
                w.log.append(("pull", self.tname, w.items[w.next_item - 1]))
                return Enum("Some", [w.items[w.next_item - 1]])
            return Enum("None")
        if g.startswith("spawn") or g.endswith("thread::spawn"):
            clos = a[0]
            name = w.find(r"^parallel_map::\{closure#0\}$")
            tname = f"w{sum(1 for t in w.threads if t.name.startswith('w'))}"
            sub = Interp(w, name, {"_1": clos}, tname)
            th = w.spawn(tname, sub.run())
            w.log.append(("spawn", self.tname, tname))
            return Handle(th)
        if g.endswith("JoinHandle::join"):
            h = a[0]
            while not h.thread.done:
                yield Block(f"join {h.thread.name}", lambda h=h: h.thread.done)
            w.log.append(("join", self.tname, h.thread.name))
            return Enum("Err", ["panic"]) if h.thread.panicked else Enum("Ok", [()])
        if g.endswith("Range::contains"):
            r_, x = a[0], a[1]
            lo, hi = r_.get(0), r_.get(1)
            return _and(self.binop("Le", lo, x), self.binop("Lt", x, hi))
        if g.endswith("Yoke::get") or g.endswith("::examples") or g.endswith("::attributes"):
            v = a[0]
            if isinstance(v, AbstractShard):
                return Enum("Some", [v.examples]) if g.endswith("::examples") else v
            if isinstance(v, tuple) and v and v[0] == "example":
                return Enum("Some", [("attributes", v[1])])
            raise Inconclusive("accessor on " + repr(v))
        if "flatbuffers::Vector" in g and g.endswith("::is_empty"):
            return self._len(a[0], "is_empty")
        if "flatbuffers::Vector" in g and g.endswith("::get"):
            v, i = a[0], a[1]
            if isinstance(v, SymVec):
                self.w.symbolic.obligation(z3.ULT(i if isinstance(i, z3.ExprRef) else z3.BitVecVal(i, 64), v.len), "flatbuffers Vector::get index < len")
                return ("example", i)
            raise Inconclusive("Vector::get on " + repr(v))
        if "flatbuffers::Vector" in g and g.endswith("::iter"):
            return ("attr-iter", a[0])
        if g.endswith("::map") or g.endswith("::collect"):
            return ("collected", a[0])
        if g == "get_example":
            name = w.find(r"^get_example$")
            sub = Interp(w, name, {"_1": a[0], "_2": a[1]}, self.tname)
            r = yield from sub.run()
            return ("example-of", a[0], r)
        if g.endswith("unwrap_or_default"):
            v = a[0]
            return v.payload[0] if v.variant == "Ok" else Enum("None")
        if g.endswith("::expect") or g.endswith("::unwrap"):
            v = a[0]
            if v.variant in ("Ok", "Some"):
                return v.payload[0]
            raise Panic(f"{g.split('::')[-1]} on {v.variant}: {a[1] if len(a) > 1 else ''}")
        if g.endswith("::ok"):
            v = a[0]
            return Enum("Some", [v.payload[0]]) if v.variant == "Ok" else Enum("None")
        if g.endswith("is_err") or g.endswith("is_none"):
            return a[0].variant in ("Err", "None")
        if g.endswith("is_ok") or g.endswith("is_some"):
            return a[0].variant in ("Ok", "Some")
        raise Inconclusive("MIR callee not in the whitelist: " + g)

    def _len(self, v, what):
        if isinstance(v, SymVec):
            return (v.len == 0) if what == "is_empty" else v.len
        return (len(v) == 0) if what == "is_empty" else len(v)

    def _index(self, v, i):
        if isinstance(v, SymVec):
            self.w.symbolic.obligation(z3.ULT(i if isinstance(i, z3.ExprRef) else z3.BitVecVal(i, 64), v.len), "Vec index in range")
            return v.elem
        if isinstance(i, z3.ExprRef):
            raise Inconclusive("symbolic index into a concrete Vec")
        if not 0 <= i < len(v):
            raise Panic(f"index out of bounds: the len is {len(v)} but the index is {i}")
        return v[i]

    # ---- control
    def truth(self, v, what):
        if isinstance(v, z3.ExprRef):
            return self.w.symbolic.decide(v, what)
        return bool(v)

    def run(self, bb="bb0", fuel=5000):
        while fuel:
            fuel -= 1
            for st in self.b[bb][:-1]:
                m = re.match(r"(.+?) = (.*);$", st)
                if not m:
                    if st.startswith(("StorageLive", "StorageDead", "nop", "FakeRead", "PlaceMention", "Retag", "AscribeUserType", "Coverage")):
                        continue
                    raise Inconclusive("MIR statement " + st)
                self.place_set(m.group(1), self.rvalue(m.group(2)))
            t = self.b[bb][-1]
            if t.startswith("goto -> "):
                bb = t[8:-1]
                continue
            if t == "return;":
                return self.env.get("_0")
            if t == "resume;":
                raise Panic(self.unwinding or "panic")
            if t == "unreachable;":
                raise Inconclusive("MIR unreachable reached (interpreter state is wrong)")
            m = re.match(r"switchInt\((.*)\) -> \[(.*)\];$", t)
            if m:
                v = self.operand(m.group(1))
                arms = [arm.split(": ") for arm in split_top(m.group(2))]
                if isinstance(v, z3.ExprRef):
                    # boolean switch on a symbolic condition
                    tv = self.truth(v, "switch")
                    v = 1 if tv else 0
                v = int(v)
                tgt = None
                for k, b_ in arms:
                    if k != "otherwise" and int(k) == v:
                        tgt = b_
                if tgt is None:
                    tgt = dict(arms).get("otherwise")
                bb = tgt
                continue
            m = re.match(r"drop\((.*)\) -> \[return: (bb\d+), unwind[: ]*(.*)\];$", t)
            if m:
                try:
                    self.drop_value(self.place_get(m.group(1)))
                except Inconclusive:
                    pass  # dropping a never-assigned local
                bb = m.group(2)
                continue
            m = re.match(r"assert\((.*)\) -> \[success: (bb\d+), unwind(?:: (bb\d+)| continue)\];$", t)
            if m:
                cond = split_top(m.group(1))[0]
                neg = cond.startswith("!")
                v = self.operand(cond.lstrip("!"))
                if isinstance(v, z3.ExprRef):
                    ok = z3.Not(v) if neg else v
                    self.w.symbolic.obligation(ok, "MIR assert: " + split_top(m.group(1))[1][:60])
                    bb = m.group(2)
                    continue
                if bool(v) == (not neg):
                    bb = m.group(2)
                    continue
                self.unwinding = "assertion failed: " + split_top(m.group(1))[1][:80]
                self.w.log.append(("PANIC", self.tname, self.unwinding))
                if m.group(3):
                    bb = m.group(3)
                    continue
                raise Panic(self.unwinding)
            m = re.match(r"(\S+) = panic\((.*)\) -> (?:\[?unwind:? ?)?(bb\d+)?.*;$", t)
            if m:
                self.unwinding = "panic: " + m.group(2)[:80]
                self.w.log.append(("PANIC", self.tname, self.unwinding))
                if m.group(3):
                    bb = m.group(3)
                    continue
                raise Panic(self.unwinding)
            m = re.match(r"(\S+) = (.*) -> \[return: (bb\d+), unwind(?:: (bb\d+)| continue| terminate.*)\];$", t)
            if m:
                lhs, callexpr, ret, unw = m.groups()
                d = 0
                i = len(callexpr) - 1
                for i in range(len(callexpr) - 1, -1, -1):
                    if callexpr[i] == ")":
                        d += 1
                    elif callexpr[i] == "(":
                        d -= 1
                        if d == 0:
                            break
                callee, args = callexpr[:i], callexpr[i + 1:-1]
                try:
                    val = yield from self.call(callee, args)
                except Panic as p:
                    self.unwinding = p.msg
                    if unw is None:
                        raise
                    bb = unw
                    continue
                self.place_set(lhs, val)
                bb = ret
                yield None  # a scheduling point after every call
                continue
            raise Inconclusive("MIR terminator " + t)
        raise Inconclusive("MIR interpreter: fuel exhausted in " + self.fname)


def _and(a, b):
    if isinstance(a, z3.ExprRef) or isinstance(b, z3.ExprRef):
        return z3.And(a if isinstance(a, z3.ExprRef) else z3.BoolVal(a), b if isinstance(b, z3.ExprRef) else z3.BoolVal(b))
    return a and b


class AbstractShard:
    def __init__(self, examples):
        self.examples = examples


class SymVec:
    def __init__(self, length, elem):
        self.len, self.elem = length, elem


class SymCtx:
    """Obligation collector for the symbolic index step."""

    def __init__(self):
        self.s = z3.Solver()
        self.s.set("timeout", 60_000)
        self.results = []

    def obligation(self, cond, what):
        self.s.push()
        self.s.add(z3.Not(cond))
        r = self.s.check()
        model = self.s.model() if r == z3.sat else None
        self.s.pop()
        self.results.append((what, str(r), {str(d): str(model[d]) for d in model.decls()} if model else None))
        self.s.add(cond)  # continue under the success branch

    forced = None  # list of booleans consumed by symbolic branches (the caller enumerates them)
    infeasible = False

    def decide(self, cond, what):
        if not self.forced:
            raise Inconclusive("symbolic branch in the index step without a forced decision: " + what)
        d = self.forced.pop(0)
        if d in ("prove-true", "prove-false"):
            d = d == "prove-true"
            self.obligation(cond if d else z3.Not(cond), f"branch cannot go the panicking way ({what})")
            return d
        self.s.add(cond if d else z3.Not(cond))
        if self.s.check() != z3.sat:
            self.infeasible = True
            raise Infeasible()
        return d


class Infeasible(Exception):
    pass


# ------------------------------------------------------------------------------------------------ programs
def consumer_program(world: World, threads: int, nexts: int, want_drop=True):
    """main thread: pm = parallel_map(FUN, ITER, threads); `nexts` x pm.next(); drop(pm)."""
    results = []
    world.results = results
    pm_name = world.find(r"^parallel_map$")
    next_name = world.find(r"^parallel_map::<impl at .*>::next$")
    drop_name = world.find(r"^parallel_map::<impl at .*>::drop$")

    def gen():
        ctor = Interp(world, pm_name, {"_1": "FUN", "_2": "ITER", "_3": threads})
        pm = yield from ctor.run()
        world.pm = pm
        for k in range(nexts):
            nx = Interp(world, next_name, {"_1": pm})
            handed = sum(1 for e in world.log if e[0] == "send" and e[2].startswith("tasks") and e[3].startswith("Some"))
            taken = len([r for r in results if r != "None"])
            world.max_in_flight = max(world.max_in_flight, handed - taken)
            try:
                r = yield from nx.run()
            except Panic as p:
                results.append(("PANIC", p.msg))
                world.log.append(("next-panicked", p.msg))
                break
            results.append("None" if (isinstance(r, Enum) and r.variant == "None") else (r.payload[0] if isinstance(r, Enum) else r))
            if isinstance(r, Enum) and r.variant == "None":
                break
        if want_drop:
            dr = Interp(world, drop_name, {"_1": pm})
            yield from dr.run()
            # the struct's fields are dropped after Drop::drop returns (drop glue)
            dr.drop_value(pm)
            world.log.append(("dropped",))
    return gen()


def run_protocol(fns, n, threads, nexts, fail_item=None):
    """Returns dict(outcome, results, log tail, workers)."""
    w = World(fns, items=list(range(n)), fail_item=fail_item)
    outcome = w.run(consumer_program(w, threads, nexts))
    return dict(outcome=outcome, results=w.results, workers=[(t.name, t.done, t.panicked, t.blocked.why if t.blocked else None) for t in w.threads],
                fun_calls=list(w.fun_calls), max_in_flight=w.max_in_flight, log=w.log)


def index_step(fns):
    """Inductive step of ParallelMap::next over symbolic usize: for every len >= 1 and every now < len the index operations
    cannot panic and the new `now` is again < len.  One run per outcome of recv (value / None)."""
    out = []
    for recv_value in ("Some", "None"):
        ctx = SymCtx()
        now, ln = z3.BitVec("now", 64), z3.BitVec("len", 64)
        ctx.s.add(z3.UGE(ln, 1), z3.ULT(now, ln))
        w = World(fns, items=[0], symbolic=ctx)
        ch_t, ch_r = Chan("tasks"), Chan("results")
        ch_r.q.append(Enum(recv_value, ["x"] if recv_value == "Some" else []))
        elem = Struct({0: End(ch_t, "tx"), 1: End(ch_r, "rx")})
        pm = Struct({0: now, 1: "ITER", 2: SymVec(ln, elem), 3: []})
        name = w.find(r"^parallel_map::<impl at .*>::next$")
        it = Interp(w, name, {"_1": pm})
        ctx.forced = [False]  # `is_empty()` on the symbolic vector: the non-empty branch (len >= 1 is assumed)
        g = it.run()
        try:
            while True:
                next(g)
        except StopIteration as stop:
            pass
        ctx.obligation(z3.ULT(pm.f[0], ln), "invariant now < len re-established")
        out.append((recv_value, ctx.results))
    return out


def shard_progress_step(fns):
    """ShardProgress::next / get_example as a loop-free integer step over symbolic usize: for every total >= 1 (the Python
    writer never stores an empty shard) and every used <= total: returns Some(example[used]) and used' = used + 1 when
    used < total, None (state unchanged) when used == total; no assertion / index can fail."""
    out = []
    for branch in (True, False):  # Ge(used, total) taken / not taken
        ctx = SymCtx()
        used, total = z3.BitVec("used", 64), z3.BitVec("total", 64)
        ctx.s.add(z3.ULE(used, total), z3.UGE(total, 1))
        ctx.forced = [branch, "prove-true", "prove-false"]  # exhausted test; range assertion PROVED; examples non-empty PROVED
        w = World(fns, items=[], symbolic=ctx)
        shard = AbstractShard(SymVec(total, "example"))
        sp = Struct({0: total, 1: used, 2: shard})
        cands = [n for n in fns if n.startswith("example_iteration::<impl") and n.endswith("::next") and "ShardProgress" in fns[n]["args"]]
        if len(cands) != 1:
            raise Inconclusive(f"ShardProgress::next not found in the MIR ({len(cands)} candidates)")
        name = cands[0]
        it = Interp(w, name, {"_1": sp})
        gen = it.run()
        res = None
        try:
            while True:
                next(gen)
        except StopIteration as stop:
            res = stop.value
        except Infeasible:
            out.append((branch, [("branch infeasible", "skipped", None)]))
            continue
        if branch:
            ctx.obligation(used == total, "None is returned exactly when used == total")
            ctx.obligation(sp.f[1] == used, "state unchanged when exhausted")
            ok = isinstance(res, Enum) and res.variant == "None"
        else:
            ctx.obligation(sp.f[1] == used + 1, "used advances by exactly one")
            ctx.obligation(z3.ULE(sp.f[1], total), "used <= total re-established")
            ok = isinstance(res, Enum) and res.variant == "Some"
            if ok:
                ex = res.payload[0]
                # ("example-of", id, ...) with id == used
                ctx.obligation(ex[1] == used if isinstance(ex, tuple) and ex[0] == "example-of" else z3.BoolVal(False),
                               "the example returned is example[used]")
        ctx.results.append(("return shape", "unsat" if ok else "sat", None if ok else {"returned": repr(res)}))
        out.append((branch, ctx.results))
    return out


# ------------------------------------------------------------------------------------------------ iterator registry
class RegInterp(Interp):
    """Interpreter for the four RustIter methods of rust/src/lib.rs (new, __enter__, next, __exit__): the process-wide
    map STATIC_ITERATORS is an association list of (key term, iterator identity); keys are 64-bit terms (z3) or ints.
    Library semantics given by this whitelist: LazyLock/Mutex/MutexGuard/PyRefMut deref = identity, lock never fails,
    HashMap insert/get_mut/remove/len/contains_key on the association list, rand::random = a fresh 64-bit value that is
    NOT one of the live keys (assumption; a uniformly random u64 collides with <= 3 live keys with probability < 2^-62)."""

    def operand(self, o):
        o = o.strip()
        if not o.startswith(("copy ", "move ", "const ")):
            return ("fn-item", o)  # a function passed by name (PoisonError::into_inner)
        return Interp.operand(self, o)

    def call(self, callee, args):
        w = self.w
        raw = re.sub(r"::+", "::", strip_generics(callee.strip())).rstrip(":")
        g = callee_key(callee)
        a = [self.operand(x) for x in split_top(args)] if args.strip() else []
        if raw.startswith("rand::random") or "::random" in raw and "rand" in raw:
            r = z3.BitVec(f"rand{len(w.reg_rands)}", 64)
            w.reg_rands.append(r)
            for k, _it in w.reg:
                w.reg_solver.add(r != (k if isinstance(k, z3.ExprRef) else z3.BitVecVal(k, 64)))
            w.reg_assumed.add("rand::random() differs from every live key")
            return r
        if re.search(r"(Deref|DerefMut)::deref(_mut)?$", raw) or re.search(r"::(deref|deref_mut|borrow|borrow_mut|as_ref|as_mut)$", g):
            return a[0]
        if re.search(r"Mutex::lock$", raw) or g.endswith("Mutex::lock"):
            return Enum("Ok", [("guard", a[0])])
        if "unwrap_or_else" in raw:
            return a[0].payload[0]
        if g.endswith("from_str") or raw.endswith("::from_str"):
            return Enum("Ok", [("opaque", raw)])
        if raw.endswith("_print") or "Arguments" in raw:
            return ()
        if raw.endswith("ExampleIterator::new"):
            w.reg_created += 1
            return ("iterator", w.reg_created)
        if raw.endswith("mem::drop") or raw == "drop":
            return ()
        if "HashMap" in raw and raw.endswith("::len"):
            return len(w.reg)
        if "HashMap" in raw and raw.endswith("::is_empty"):
            return len(w.reg) == 0
        if "HashMap" in raw and (raw.endswith("::insert") or raw.endswith("::get_mut") or raw.endswith("::get")
                                 or raw.endswith("::remove") or raw.endswith("::contains_key")):
            key = a[1]
            hits = []
            for idx, (k, itr) in enumerate(w.reg):
                eq = self._key_eq(key, k)
                if eq is None:
                    w.reg_problems.append(dict(kind="key-collision-possible", at=raw.split("::")[-1], model=self._model_for(key, k),
                                               what=f"the key {key} may equal the live key {k} of {itr}"))
                    eq = True
                if eq:
                    hits.append(idx)
            op = raw.split("::")[-1]
            if op == "insert":
                if hits:
                    old = w.reg[hits[0]][1]
                    w.reg_problems.append(dict(kind="insert-replaces-live-iterator", at="insert",
                                               what=f"new() inserts under key {key}, which is the key of the live {old}: that "
                                                    f"iterator is replaced (dropped) while its Python handle still uses the key"))
                    w.reg[hits[0]] = (key, a[2])
                    return Enum("Some", [old])
                w.reg.append((key, a[2]))
                return Enum("None")
            if op in ("get_mut", "get"):
                return Enum("Some", [w.reg[hits[0]][1]]) if hits else Enum("None")
            if op == "contains_key":
                return bool(hits)
            if op == "remove":
                if hits:
                    return Enum("Some", [w.reg.pop(hits[0])[1]])
                return Enum("None")
        if raw.endswith("ExampleIterator as Iterator::next") or (g.endswith("::next") and "ExampleIterator" in callee):
            return ("next-of", a[0])
        if g.endswith("Vec::new") or g.endswith("into_iter") or g.endswith("::map") or g.endswith("::collect") \
                or g.endswith("::expect") or g.endswith("::unwrap") or g.endswith("::clone"):
            if g.endswith("::clone"):
                return a[0]
            r = yield from Interp.call(self, callee, args)
            return r
        raise Inconclusive("MIR callee not in the registry whitelist: " + raw)

    def _key_eq(self, a, b):
        if not isinstance(a, z3.ExprRef) and not isinstance(b, z3.ExprRef):
            return a == b
        if a is b:
            return True
        A = a if isinstance(a, z3.ExprRef) else z3.BitVecVal(a, 64)
        B = b if isinstance(b, z3.ExprRef) else z3.BitVecVal(b, 64)
        s = self.w.reg_solver
        self.w.reg_queries += 1
        s.push()
        s.add(A == B)
        can_eq = s.check()
        s.pop()
        s.push()
        s.add(A != B)
        can_ne = s.check()
        s.pop()
        if str(can_eq) == "unsat":
            return False
        if str(can_ne) == "unsat":
            return True
        if "unknown" in (str(can_eq), str(can_ne)):
            raise Inconclusive("z3 unknown on a key comparison")
        return None

    def _model_for(self, a, b):
        s = self.w.reg_solver
        s.push()
        s.add((a if isinstance(a, z3.ExprRef) else z3.BitVecVal(a, 64)) == (b if isinstance(b, z3.ExprRef) else z3.BitVecVal(b, 64)))
        s.check()
        m = {str(d): str(s.model()[d]) for d in s.model().decls()}
        s.pop()
        return m


def registry_history(fns, history):
    """Run one history of RustIter operations [(op, handle)], op in new|enter|next|exit, on the MIR.
    Returns (problems, stats).  Obligations: new() never reuses the key of a live iterator; next() of handle h reaches the
    iterator created by h's new(); exit() removes exactly h's iterator; no operation panics."""
    w = World(fns, [])
    w.reg, w.reg_rands, w.reg_created, w.reg_problems, w.reg_queries = [], [], 0, [], 0
    w.reg_solver = z3.Solver()
    w.reg_assumed = set()
    w.locks, w.gil_depth, w.lock_log, w.results = {}, {}, [], {}
    names = dict(new=w.find(r"static_iter::<impl.*>::new$"), enter=w.find(r"static_iter::<impl.*>::__enter__$"),
                 next=w.find(r"static_iter::<impl.*>::next$"), exit=w.find(r"static_iter::<impl.*>::__exit__$"))
    handles, owner = {}, {}

    def drive(gen):
        try:
            while True:
                next(gen)
        except StopIteration as si:
            return si.value

    for step, (op, h) in enumerate(history):
        try:
            if op == "new":
                before = w.reg_created
                handles[h] = drive(LockInterp(w, names["new"], {"_1": ["file"], "_2": False, "_3": 1, "_4": "compression"}).run())
                if w.reg_created != before + 1:
                    w.reg_problems.append(dict(kind="new-creates-no-iterator", what=f"step {step}: new() created {w.reg_created - before} iterators"))
                owner[h] = ("iterator", w.reg_created)
            elif op == "enter":
                handles[h] = drive(LockInterp(w, names["enter"], {"_1": handles[h]}).run())
            elif op == "next":
                r = drive(LockInterp(w, names["next"], {"_1": handles[h]}).run())
                if not (isinstance(r, tuple) and r[0] == "next-of" and r[1] == owner[h]):
                    w.reg_problems.append(dict(kind="next-reaches-another-iterator", step=step,
                                               what=f"step {step}: next() of handle {h} (owner of {owner[h]}) is served by {r}"))
            elif op == "exit":
                drive(LockInterp(w, names["exit"], {"_1": handles[h], "_2": "None", "_3": "None", "_4": "None"}).run())
                if any(itr == owner[h] for _k, itr in w.reg):
                    w.reg_problems.append(dict(kind="exit-leaves-iterator", what=f"step {step}: exit of handle {h} left its iterator registered"))
                live_owners = {owner[x] for x in handles if ("exit", x) not in history[:step + 1] and ("new", x) in history[:step + 1]}
                if live_owners - {itr for _k, itr in w.reg}:
                    w.reg_problems.append(dict(kind="exit-removes-another-iterator", step=step,
                                               what=f"step {step}: exit of handle {h} removed the iterator of another live handle"))
        except Panic as p:
            w.reg_problems.append(dict(kind="registry-operation-panics", step=step, what=f"step {step}: {op}({h}) panics: {p.msg}"))
            break
    return w.reg_problems, dict(queries=w.reg_queries, assumed=sorted(w.reg_assumed))


def registry_histories(handles):
    """All interleavings of new<enter<next<exit per handle (each handle: new, enter, next, exit)."""
    seqs = [[("new", h), ("enter", h), ("next", h), ("exit", h)] for h in range(handles)]

    def rec(pos):
        if all(p == len(s) for p, s in zip(pos, seqs)):
            yield []
            return
        for i, s in enumerate(seqs):
            # symmetry: handle i+1 is created after handle i
            if pos[i] < len(s):
                if pos[i] == 0 and i > 0 and pos[i - 1] == 0:
                    continue
                np_ = list(pos)
                np_[i] += 1
                for rest in rec(np_):
                    yield [s[pos[i]]] + rest
    return rec([0] * handles)


# ------------------------------------------------------------------------------------------------ locks of the pyo3 layer
class Sync:
    """Yielded by a thread at a lock operation: the scheduler may switch threads here."""

    def __init__(self, what):
        self.what = what


class LockInterp(RegInterp):
    """RegInterp + the two locks of the Python-facing layer: the registry mutex M (Mutex::lock .. drop of the guard) and the
    interpreter lock GIL (held by the calling Python thread on entry; Python::with_gil = re-entrant acquire;
    Python::allow_threads = release around the closure, re-acquire afterwards).  Lock operations block and are the only
    points at which the scheduler switches threads."""

    def _acquire(self, lock):
        w = self.w
        yield Sync(f"{self.tname} wants {lock}")
        while w.locks.get(lock) not in (None, self.tname):
            yield Block(f"{self.tname} waits for {lock} held by {w.locks.get(lock)}", lambda: w.locks.get(lock) in (None, self.tname))
        w.locks[lock] = self.tname
        w.lock_log.append((self.tname, "acquire", lock))

    def _release(self, lock):
        w = self.w
        if w.locks.get(lock) == self.tname:
            w.locks[lock] = None
            w.lock_log.append((self.tname, "release", lock))
        yield Sync(f"{self.tname} released {lock}")

    def drop_value(self, v, seen=None):
        if isinstance(v, tuple) and len(v) == 2 and v[0] == "guard":
            if self.w.locks.get("M") == self.tname:
                self.w.locks["M"] = None
                self.w.lock_log.append((self.tname, "release", "M"))
            return
        return RegInterp.drop_value(self, v, seen)

    def _closure_fn(self):
        name = self.fname + "::{closure#0}"
        if name not in self.w.fns:
            raise Inconclusive(f"MIR of the closure {name} not found")
        return name

    def call(self, callee, args):
        raw = re.sub(r"::+", "::", strip_generics(callee.strip())).rstrip(":")
        w = self.w
        if re.search(r"Mutex::lock$", raw):
            yield from self._acquire("M")
            a = [self.operand(x) for x in split_top(args)]
            return Enum("Ok", [("guard", a[0])])
        if raw.endswith("Python::with_gil"):
            a = [self.operand(x) for x in split_top(args)]
            had = w.gil_depth.get(self.tname, 0)
            if had == 0:
                yield from self._acquire("GIL")
            w.gil_depth[self.tname] = had + 1
            sub = LockInterp(w, self._closure_fn(), {"_1": a[0], "_2": "py"}, self.tname)
            r = yield from sub.run()
            w.gil_depth[self.tname] = had
            if had == 0:
                yield from self._release("GIL")
            return r
        if raw.endswith("Python::allow_threads"):
            a = [self.operand(x) for x in split_top(args)]
            had = w.gil_depth.get(self.tname, 0)
            w.gil_depth[self.tname] = 0
            if had:
                yield from self._release("GIL")
            sub = LockInterp(w, self._closure_fn(), {"_1": a[-1]}, self.tname)
            r = yield from sub.run()
            if had:
                yield from self._acquire("GIL")
            w.gil_depth[self.tname] = had
            return r
        r = yield from RegInterp.call(self, callee, args)
        return r


def _python_call(w, tname, fname, env):
    """A Python thread calls a method of the extension: it holds the GIL for the duration (unless the method releases it)."""
    it = LockInterp(w, fname, env, tname)
    yield from it._acquire("GIL")
    w.gil_depth[tname] = 1
    r = yield from it.run()
    w.gil_depth[tname] = 0
    yield from it._release("GIL")
    w.results[tname] = r
    return r


def lock_schedules(fns, ops=("next", "next"), max_runs=20000):
    """Two Python threads, each with its own entered RustIter, run ops[0] and ops[1] concurrently.  Every interleaving of
    their lock operations is executed on the MIR (depth-first over the scheduler's choices).  Returns
    (problems, stats): a problem is a reachable state in which every unfinished thread is blocked (deadlock), a panic, or a
    call served by the other thread's iterator."""
    names = dict(new=r"static_iter::<impl.*>::new$", enter=r"static_iter::<impl.*>::__enter__$",
                 next=r"static_iter::<impl.*>::next$", exit=r"static_iter::<impl.*>::__exit__$")
    problems, runs, stack = [], 0, [[]]
    seen_kinds = set()
    while stack and runs < max_runs:
        prefix = stack.pop()
        runs += 1
        w = World(fns, [])
        w.reg, w.reg_rands, w.reg_created, w.reg_problems, w.reg_queries = [], [], 0, [], 0
        w.reg_solver = z3.Solver()
        w.reg_assumed = set()
        w.locks, w.gil_depth, w.lock_log, w.results = {}, {}, [], {}
        fn = {k: w.find(v) for k, v in names.items()}

        def drive(gen):
            try:
                while True:
                    next(gen)
            except StopIteration as si:
                return si.value
        handles, owner = {}, {}
        for h in ("A", "B"):  # set-up, one after the other
            handles[h] = drive(_python_call(w, h, fn["new"], {"_1": ["file"], "_2": False, "_3": 1, "_4": "compression"}))
            owner[h] = ("iterator", w.reg_created)
            handles[h] = drive(_python_call(w, h, fn["enter"], {"_1": handles[h]}))
        gens = {}
        for h, op in zip(("A", "B"), ops):
            env = {"_1": handles[h]} if op != "exit" else {"_1": handles[h], "_2": "None", "_3": "None", "_4": "None"}
            gens[h] = _python_call(w, h, fn[op], env)
        done, blocked, choices = set(), {}, []
        step = 0
        try:
            while len(done) < 2:
                runnable = [h for h in ("A", "B") if h not in done and (h not in blocked or blocked[h].ready())]
                if not runnable:
                    stuck = {h: blocked[h].why for h in blocked if h not in done}
                    if "deadlock" not in seen_kinds:
                        seen_kinds.add("deadlock")
                        problems.append(dict(kind="lock-order-deadlock", ops=list(ops), schedule=list(w.lock_log),
                                             what=f"two Python threads calling {ops[0]}() and {ops[1]}() on their own iterators: after "
                                                  f"{[' '.join(x) for x in w.lock_log[-6:]]} every thread is blocked: {stuck}"))
                    break
                if len(runnable) > 1:
                    k = prefix[step] if step < len(prefix) else 0
                    if step >= len(prefix):
                        stack.append(choices + [1])
                    choices.append(k)
                    step += 1
                    h = runnable[k]
                else:
                    h = runnable[0]
                blocked.pop(h, None)
                # advance h to its next lock operation
                while True:
                    try:
                        y = next(gens[h])
                    except StopIteration:
                        done.add(h)
                        break
                    if isinstance(y, Block):
                        blocked[h] = y
                        break
                    if isinstance(y, Sync):
                        break
        except Panic as p:
            if "panic" not in seen_kinds:
                seen_kinds.add("panic")
                problems.append(dict(kind="concurrent-call-panics", ops=list(ops), schedule=list(w.lock_log), what=f"concurrent {ops}: panic: {p.msg}"))
        for h, op in zip(("A", "B"), ops):
            r = w.results.get(h)
            if op == "next" and h in done and not (isinstance(r, tuple) and r[0] == "next-of" and r[1] == owner[h]):
                if "foreign" not in seen_kinds:
                    seen_kinds.add("foreign")
                    problems.append(dict(kind="concurrent-next-reaches-another-iterator", ops=list(ops), schedule=list(w.lock_log),
                                         what=f"concurrent {ops}: next() of thread {h} was served by {r}, its own iterator is {owner[h]}"))
        problems += [dict(p_, ops=list(ops)) for p_ in w.reg_problems if p_["kind"] not in seen_kinds and not seen_kinds.add(p_["kind"])]
    return problems, dict(runs=runs)
