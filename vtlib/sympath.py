"""SymPath - a symbolic stand-in for pathlib.PurePosixPath at the level of *parsed parts*.

A path is (absolute flag, sequence of <= K parts), each part from an enumerated alphabet
{"..", "a", "train" (a split name: some code treats the first component specially), "shards_list.json"}.  ("." and empty components never survive pathlib's parsing, a
concrete self-test checks that against the real pathlib.)  Supports what the real validators and join
sites use: .parts (in / index / len / iteration / slicing), .name, .is_absolute(), `/` on both sides.
`escapes(depth0)` is the containment oracle: lexical resolution of base/p leaves base (base being depth0
levels below the dataset root)  <=>  p is absolute or some prefix has more ".." than names + depth0.
"""
from __future__ import annotations

import z3

from .symx import Inconclusive, SymBool, SymInt

DD, N1, N2, SLJ, WIN = 0, 1, 2, 3, 4
# WIN: one harmless POSIX file name that would be a traversal if somebody re-parsed it with Windows separators
TOK = {DD: "..", N1: "a", N2: "train", SLJ: "shards_list.json", WIN: "w\\..\\..\\..\\x"}
ROOTS = {0: "", 1: "/", 2: "//"}  # POSIX: exactly two leading slashes are a root of their own
ALPHA = len(TOK)


REALISED: dict = {}  # concrete string produced at a C boundary -> the SymPath it came from


class SymStr:
    """A string known to be one of finitely many cases [(cond, python str)] (conditions exclusive)."""

    def __init__(self, e, cases):
        self.e = e
        self.cases = cases

    def _any(self, pred):
        return z3.Or([c for c, v in self.cases if pred(v)] + [z3.BoolVal(False)])

    def __eq__(self, o):
        if isinstance(o, SymStr):
            return SymBool(self.e, z3.Or([z3.And(c1, c2) for c1, v1 in self.cases for c2, v2 in o.cases if v1 == v2] + [z3.BoolVal(False)]))
        if not isinstance(o, str):
            return False
        return SymBool(self.e, self._any(lambda v: v == o))

    def __ne__(self, o):
        r = self.__eq__(o)
        return ~r if isinstance(r, SymBool) else (not r)

    def startswith(self, p):
        return SymBool(self.e, self._any(lambda v: v.startswith(p)))

    def endswith(self, p):
        return SymBool(self.e, self._any(lambda v: v.endswith(p)))

    def __contains__(self, o):
        return bool(SymBool(self.e, self._any(lambda v: o in v)))

    def realize(self):
        for c, v in self.cases:
            if self.e.branch(c):
                return v
        raise Inconclusive("SymStr with no feasible case")

    def __hash__(self):
        return hash(self.realize())

    def __format__(self, spec):
        return "<symbolic-name>"

    __str__ = __repr__ = lambda s: "<symbolic-name>"


class SymParts:
    def __init__(self, p: "SymPath"):
        self.p = p

    def _len(self):
        p = self.p
        return SymInt(p.e, p.L + z3.If(p.absolute, 1, 0))

    def __len__(self):
        return int(self._len())

    def _elem(self, idx: int):
        """SymStr of parts[idx] for a concrete non-negative idx (caller checked the range)."""
        p = self.p
        cases = []
        if idx == 0:
            cases.append((p.rootk == 1, "/"))
            cases.append((p.rootk == 2, "//"))
        for j in (idx, idx - 1):
            if 0 <= j < p.K:
                sel = z3.And(p.absolute if j == idx - 1 else z3.Not(p.absolute), j < p.L)
                for k, t in TOK.items():
                    cases.append((z3.And(sel, p.c[j] == k), t))
        return SymStr(p.e, cases)

    def __getitem__(self, i):
        n = len(self)  # realises the length (finite fork)
        if isinstance(i, slice):
            return tuple(self._elem(j) for j in range(*i.indices(n)))
        i = int(i)
        if i < 0:
            i += n
        if not 0 <= i < n:
            raise IndexError("tuple index out of range")
        return self._elem(i)

    def __iter__(self):
        n = len(self)
        return iter([self._elem(j) for j in range(n)])

    def __contains__(self, o):
        p = self.p
        alts = [z3.And(i < p.L, p.c[i] == k) for i in range(p.K) for k, t in TOK.items() if t == o]
        if o == "/":
            alts.append(p.rootk == 1)
        if o == "//":
            alts.append(p.rootk == 2)
        return bool(SymBool(p.e, z3.Or(alts + [z3.BoolVal(False)])))

    def __eq__(self, o):
        if isinstance(o, tuple):
            if len(self) != len(o):
                return False
            return all(bool(a == b) for a, b in zip(self, o))
        return NotImplemented


class SymPath:
    def __init__(self, e, name="p", K=3, _raw=None):
        self.e = e
        self.K = K
        self.sym_name = name
        if _raw is not None:
            self.L, self.c, self.rootk = _raw
            self.absolute = self.rootk > 0
            self.K = len(self.c)
            return
        L = e.fresh_int(f"{name}_len", 0, K)
        self.L = L.z
        self.c = [e.fresh_int(f"{name}_part{i}", 0, ALPHA - 1).z for i in range(K)]
        self.rootk = e.fresh_int(f"{name}_root", 0, 2).z
        self.absolute = self.rootk > 0

    # --- what the library uses
    @property
    def parts(self):
        return SymParts(self)

    @property
    def name(self):
        cases = [(self.L == 0, "")]
        for i in range(self.K):
            for k, t in TOK.items():
                cases.append((z3.And(self.L == i + 1, self.c[i] == k), t))
        return SymStr(self.e, cases)

    def is_absolute(self):
        return SymBool(self.e, self.absolute)

    @property
    def parent(self):
        newL = z3.If(self.L > 0, self.L - 1, 0)
        return SymPath(self.e, _raw=(newL, self.c, self.rootk))

    def _concat(self, other_tokens_front=(), other_tokens_back=()):
        """Path with concrete tokens (indices into TOK or ('lit', str)) prepended / appended."""
        raise NotImplementedError

    def __truediv__(self, o):
        return JoinedSym(self.e, [self, o])

    def __rtruediv__(self, o):
        return JoinedSym(self.e, [o, self])

    def joinpath(self, *others):
        return JoinedSym(self.e, [self, *others])

    def __format__(self, spec):
        return f"<sympath {self.sym_name}>"

    __str__ = __repr__ = lambda s: f"<sympath {s.sym_name}>"

    def __fspath__(self):
        """C boundary (os.fspath): realise the whole path - a finite fork over every part sequence."""
        root = ROOTS[self.e.realize(self.rootk)]
        n = self.e.realize(self.L)
        toks = [TOK[self.e.realize(self.c[i])] for i in range(n)]
        out = (root + "/".join(toks)) or "."
        REALISED[out] = self
        REALISED[out.replace("\\", "/")] = self
        return out

    def __hash__(self):
        return id(self)

    def __eq__(self, o):
        return self is o

    def __deepcopy__(self, memo):
        return self

    # --- oracle
    def escapes(self, depth0=0):
        """z3 Bool: base/p resolves (lexically) outside the dataset root, base being depth0 levels inside it."""
        depth = z3.IntVal(depth0)
        bad = z3.BoolVal(False)
        for i in range(self.K):
            act = i < self.L
            depth = z3.If(act, z3.If(self.c[i] == DD, depth - 1, depth + 1), depth)
            bad = z3.Or(bad, z3.And(act, depth < 0))
        return z3.Or(self.absolute, bad)

    def concrete(self, model: dict):
        """The concrete path string for a model (dict name -> value)."""
        L = int(model.get(f"{self.sym_name}_len", 0))
        toks = [TOK[int(model.get(f"{self.sym_name}_part{i}", 0))] for i in range(L)]
        return ROOTS[int(model.get(f"{self.sym_name}_root", 0))] + "/".join(toks)


def concrete_from_model(name, model, K=3):
    L = int(model.get(f"{name}_len", 0))
    toks = [TOK[int(model.get(f"{name}_part{i}", 0))] for i in range(L)]
    s = ROOTS[int(model.get(f"{name}_root", 0))] + "/".join(toks)
    return s or "."


class JoinedSym:
    """Result of joining path segments, at least one of them symbolic: segments are kept as a list of
    concrete strings / pathlib paths / SymPaths.  An absolute later segment discards everything before it
    (pathlib semantics) - modelled in `escapes`."""

    def __init__(self, e, segs):
        self.e = e
        flat = []
        for s in segs:
            if isinstance(s, JoinedSym):
                flat += s.segs
            else:
                flat.append(s)
        self.segs = flat

    def __truediv__(self, o):
        return JoinedSym(self.e, [self, o])

    def __rtruediv__(self, o):
        return JoinedSym(self.e, [o, self])

    def joinpath(self, *o):
        return JoinedSym(self.e, [self, *o])

    @property
    def parts(self):
        raise Inconclusive("parts of a joined symbolic path not modelled")

    @property
    def parent(self):
        if self.segs and not isinstance(self.segs[-1], (SymPath, JoinedSym)):
            import pathlib
            last = pathlib.PurePosixPath(str(self.segs[-1]))
            if len(last.parts) == 1 and not last.is_absolute() and last.parts[0] != "..":
                return JoinedSym(self.e, self.segs[:-1])
        raise Inconclusive("parent of a joined symbolic path not modelled")

    @property
    def name(self):
        last = self.segs[-1]
        if isinstance(last, SymPath):
            return last.name
        import pathlib
        return pathlib.PurePosixPath(str(last)).name

    def escapes_root(self, root_index=0):
        """z3 Bool: the joined path is lexically outside segs[root_index] (the dataset root object)."""
        import pathlib
        depth = z3.IntVal(0)
        bad = z3.BoolVal(False)
        for s in self.segs[root_index + 1:]:
            if isinstance(s, SymPath):
                for i in range(s.K):
                    act = i < s.L
                    depth = z3.If(act, z3.If(s.c[i] == DD, depth - 1, depth + 1), depth)
                    bad = z3.Or(bad, z3.And(act, depth < 0))
                bad = z3.Or(bad, s.absolute)
            else:
                pp = pathlib.PurePosixPath(str(s))
                if pp.is_absolute():
                    bad = z3.BoolVal(True)
                for part in pp.parts:
                    depth = depth - 1 if part == ".." else depth + 1
                    bad = z3.Or(bad, depth < 0)
        return bad

    def __format__(self, spec):
        return "<joined-sympath>"

    __str__ = __repr__ = lambda s: "<joined-sympath>"

    def __hash__(self):
        return id(self)

    def __eq__(self, o):
        return self is o

    def __deepcopy__(self, memo):
        return self


def selftest(nmax=3):
    """Differential test of the abstraction against the real pathlib / os.path on all part sequences <= 3."""
    import itertools
    import os.path
    import pathlib
    from .symx import Engine
    problems = []
    raw_extra = ["", ".", "a/./b", "a//b", "./a", "a/", "a/.", ".//a/../b"]
    # (1) '.' and '' never survive parsing
    for s in raw_extra:
        if any(p in (".", "") for p in pathlib.PurePosixPath(s).parts):
            problems.append(f"pathlib keeps '.'/'' in parts of {s!r}")
    # (2) model vs pathlib on every concrete part sequence
    for rk in (0, 1, 2):
        ab = rk > 0
        for n in range(0, nmax + 1):
            for seq in itertools.product(range(ALPHA), repeat=n):
                e = Engine()
                p = SymPath(e, "p", K=3)
                e.solver.add(p.L == n, p.rootk == rk, *[p.c[i] == seq[i] for i in range(n)])
                real = pathlib.PurePosixPath(ROOTS[rk] + "/".join(TOK[t] for t in seq))
                if rk == 2 and n == 0:
                    continue  # "//" alone: pathlib keeps it as root; no names to compare
                if os.fspath(p) != (str(real) if str(real) != "" else "."):
                    problems.append(f"fspath {real}: {os.fspath(p)!r}")
                if bool(p.name == real.name) is not True:
                    problems.append(f"name {real}")
                if bool(p.is_absolute()) != real.is_absolute():
                    problems.append(f"abs {real}")
                if (".." in p.parts) != (".." in real.parts):
                    problems.append(f"contains {real}")
                if len(p.parts) != len(real.parts):
                    problems.append(f"len {real}")
                elif any(bool(a == b) is not True for a, b in zip(p.parts, real.parts)):
                    problems.append(f"parts {real}")
                full = os.path.normpath(os.path.join("/r/d", str(real)))
                # walking up through '..' step by step (no symlinks): escapes iff some prefix leaves /r/d
                esc_real = real.is_absolute()
                cur = "/r/d"
                for part in ([] if real.is_absolute() else real.parts):
                    cur = os.path.normpath(os.path.join(cur, part))
                    if not (cur == "/r/d" or cur.startswith("/r/d/")):
                        esc_real = True
                esc_model = e.check(p.escapes(0)) == z3.sat
                if esc_model != esc_real:
                    problems.append(f"escapes {real}: model {esc_model} real {esc_real} ({full})")
    return problems
