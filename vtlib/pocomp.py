"""pocomp - thread-modular symbolic summaries of the real lazy_pool.py + SMT partial-order composition.

1. Summaries: each thread body of the REAL code (Collector.run; a consumer driver around the real
   LazyPool.__enter__/imap_unordered/finish_and_reset/__exit__) is executed alone under symx against recording
   queues.  What a `get` returns has a SYMBOLIC class (the proxy's __class__ forks, so the code's own
   isinstance tests decide the path); the mapped function forks on "raises for this item"; the number of inputs n
   and the early-exit position x are symbolic.  A `get(timeout=...)` may time out (fork).  Result: per thread a
   finite set of event paths with their path conditions.
2. Composition (one z3 instance, no step-indexed unrolling): per thread a path selector and a cut; integer
   timestamps along each thread; FIFO ranks for queue operations of the multi-party side; uninterpreted
   kind/idx functions carry data from the put with rank j to the get with rank j; Fail(i) says whether the
   mapped function raises on input i.
3. Queries: unwinding limit reachable (must be unsat), deadlock/leak, exactly-once, failure surfaces, read-ahead,
   reusable final state, reachability twin.
Every satisfying model is a concrete schedule (total order of queue operations) that `replay_schedule` enforces
on the real pool with real threads.
"""
from __future__ import annotations

import importlib
import os
import queue as realqueue
import threading
import time
import types

import z3

from .symx import Abort, Engine, Inconclusive, explore

K_PLAIN, K_SENT, K_FAILED = 0, 1, 2


class Boom(Exception):
    """The mapped function fails."""


class ConsumerError(Exception):
    """The consumer's loop body raises (the iteration is abandoned by an exception, not by break)."""


def load_module():
    import sedpack.io.itertools.lazy_pool as lp
    return importlib.reload(lp)


class SymVal:
    """Object received from a queue: its class is symbolic."""

    def __init__(self, e, name, dec, classes):
        self.e, self.name, self.dec, self.classes = e, name, dec, classes
        self.kind = z3.Int(f"kind_{name}")
        self._cls = None

    @property
    def __class__(self):
        if self._cls is None:
            e = self.e
            if e.branch(self.kind == K_SENT):
                self._cls, k = self.classes["sent"], K_SENT
            elif self.classes.get("failed") is not None and not self.name.startswith("qp") and e.branch(self.kind == K_FAILED):
                # (only workers put failure records, and only on the results queue; the composition rejects anything else)
                self._cls, k = self.classes["failed"], K_FAILED
            else:
                e.assume(self.kind == K_PLAIN)
                self._cls, k = int, K_PLAIN
            self.dec[self.name] = k
        return self._cls

    @property
    def exception(self):  # FailedCall.exception
        return Boom(f"mapped function failed ({self.name})")


class Item:
    def __init__(self, i):
        self.i = i


class RecQ:
    def __init__(self, e, name, log, dec, limit, classes):
        self.e, self.name, self.log, self.dec, self.limit, self.classes = e, name, log, dec, limit, classes
        self.k = 0

    def __class_getitem__(cls, _):
        return cls

    def get(self, block=True, timeout=None):
        if self.k >= self.limit:
            self.log.append(dict(kind="LIMIT"))
            raise Abort()
        if not block or timeout is not None:
            if self.e.branch(z3.Bool(f"timeout_{self.name}{self.k}_{len(self.log)}")):
                self.log.append(dict(kind="get-timeout", q=self.name))
                if len([x for x in self.log if x["kind"] == "get-timeout"]) > 2:
                    self.log.append(dict(kind="LIMIT"))
                    raise Abort()
                raise realqueue.Empty()
        v = SymVal(self.e, f"{self.name}{self.k}", self.dec, self.classes)
        self.log.append(dict(kind="get", q=self.name, m=self.k, nonblocking=(not block or timeout is not None)))
        self.k += 1
        return v

    def put(self, v, *a, **k):
        c = self.classes
        if isinstance(v, SymVal):
            val = ("fwd", v.name)
        elif type(v) is c["sent"]:
            val = ("sent",)
        elif c.get("failed") is not None and type(v) is c["failed"]:
            val = ("failed", self.dec.get("_lastget"))
        elif isinstance(v, Item):
            val = ("item", v.i)
        elif v is None and self.dec.get("_none_pulled"):
            val = ("item", self.dec["_none_pulled"].pop(0))  # an input whose VALUE is None
        elif isinstance(v, tuple) and v and v[0] == "res":
            val = ("res", v[1])
        else:
            raise Inconclusive(f"unmodelled object put on a queue: {type(v).__name__}")
        self.log.append(dict(kind="put", q=self.name, val=val))

    def qsize(self):
        """A racy probe: the number of elements in the queue at that instant (decided by the composition)."""
        v = self.e.fresh_int(f"qsize_{self.name}_{len(self.log)}", 0, None)
        self.log.append(dict(kind="probe-size", q=self.name, var=v.z))
        if len([x for x in self.log if x["kind"] in ("probe-size", "probe-empty")]) > 10:
            self.log.append(dict(kind="LIMIT"))
            raise Abort()
        return v

    def empty(self):
        """A racy probe: its answer is whatever is true at that instant (decided by the composition)."""
        r = self.e.branch(z3.Bool(f"probe_empty_{self.name}_{len(self.log)}"))
        self.log.append(dict(kind="probe-empty", q=self.name, result=bool(r)))
        if len([x for x in self.log if x["kind"] == "probe-empty"]) > 8:
            self.log.append(dict(kind="LIMIT"))
            raise Abort()
        return r

    def get_nowait(self):
        return self.get(block=False)

    put_nowait = put


def _classes(lp):
    return dict(sent=lp.StopSentinel, failed=getattr(lp, "FailedCall", None))


def extract_worker(lp, nmax, fail):
    paths = []
    classes = _classes(lp)

    def worker(e):
        log, dec = [], {}
        c = lp.Collector.__new__(lp.Collector)
        qp = RecQ(e, "qp", log, dec, nmax + 2, classes)
        qr = RecQ(e, "qr", log, dec, 99, classes)
        c._to_process, c._results = qp, qr
        real_get = qp.get

        def get(*a, **k):
            v = real_get(*a, **k)
            dec["_lastget"] = v.name
            return v
        qp.get = get

        def func(x):
            if not isinstance(x, SymVal):
                raise Inconclusive("mapped function applied to something that did not come from the queue")
            # exactly one input fails (Fail(i) <=> i == failing_input), so one worker sees at most one failure
            if fail and not dec.get("_failed_once") and e.branch(z3.Bool(f"fail_{x.name}")):
                dec["fail_" + x.name] = True
                dec["_failed_once"] = True
                raise Boom()
            dec["fail_" + x.name] = False
            return ("res", x.name)
        c.func = func
        old_sleep = lp.time.sleep
        try:
            lp.time = types.SimpleNamespace(sleep=lambda s: None)
            lp.Collector.run(c)
            log.append(dict(kind="END"))
        except Abort:
            pass
        except Boom:
            log.append(dict(kind="DIE"))
        finally:
            import time as _t
            lp.time = _t
        paths.append((log, dict(dec)))
    st = explore(worker, max_paths=int(os.environ.get("VT_POCOMP_MAX_PATHS", "4000")),
                 deadline=time.time() + float(os.environ.get("VT_POCOMP_EXTRACT_S", "240")))
    return paths, st


def extract_consumer(lp, T, nmax, early, second_round=False, none_inputs=False):
    paths = []
    classes = _classes(lp)
    stats = {}

    def consumer(e):
        log, dec, created = [], {}, []
        n = e.fresh_int("n", 0, nmax)
        x = e.fresh_int("x", 1, max(nmax, 1)) if early else None

        class StubQ(RecQ):
            def __init__(s, *a, **k):
                nm = ["qp", "qr"][len(created) % 2] + ("" if len(created) < 2 else "'")
                created.append(nm)
                RecQ.__init__(s, e, nm, log, dec, nmax + T + 2, classes)
                cap = a[0] if a else k.get("maxsize", 0)
                if not isinstance(cap, int):
                    raise Inconclusive(f"queue created with a capacity that is not a plain integer: {cap!r}")
                dec["_cap_" + nm] = max(cap, 0)  # 0 = unbounded (queue.Queue semantics)

        old_queue, old_start = lp.queue, lp.Collector.start
        lp.queue = types.SimpleNamespace(Queue=StubQ, Empty=realqueue.Empty)
        lp.Collector.start = lambda self: log.append(dict(kind="spawn"))

        class It:
            def __init__(s):
                s.i = 0

            def __iter__(s):
                return s

            def __next__(s):
                if s.i < n:
                    s.i += 1
                    log.append(dict(kind="pull", i=s.i - 1))
                    # the VALUE of an input is arbitrary: at most one of them is None
                    if none_inputs and not dec.get("_none_once") and e.branch(z3.Bool(f"input_{s.i - 1}_is_None")):
                        dec["_none_once"] = True
                        dec["_none_index"] = s.i - 1
                        dec.setdefault("_none_pulled", []).append(s.i - 1)
                        return None
                    return Item(s.i - 1)
                raise StopIteration

        pool = None
        try:
            try:
                with lp.LazyPool(T) as pool:
                    emitted = 0
                    for r in pool.imap_unordered(lambda v: v, It()):
                        log.append(dict(kind="emit", src=getattr(r, "name", None)))
                        emitted += 1
                        if early and emitted == x:
                            if e.branch(z3.Bool("leave_by_exception")):
                                log.append(dict(kind="consumer-raises"))
                                raise ConsumerError()
                            log.append(dict(kind="break"))
                            break
                log.append(dict(kind="END"))
            except ConsumerError:
                log.append(dict(kind="END"))
            except realqueue.Empty:
                # an exception of the queue library escaped the pool: the consumer sees an error that is not its own
                log.append(dict(kind="RAISE"))
                log.append(dict(kind="END"))
            except Boom:
                log.append(dict(kind="RAISE"))
                log.append(dict(kind="END"))
            except Exception as exc:  # noqa: BLE001 - an exception made up by the pool itself reaches the consumer
                log.append(dict(kind="RAISE", foreign=type(exc).__name__))
                log.append(dict(kind="END"))
            # the pool object must be reusable
            if pool is not None:
                ok = (pool._active_threads <= 0 and pool._to_process is None and pool._results is None) \
                    if all(hasattr(pool, a) for a in ("_active_threads", "_to_process", "_results")) else True
                log[-1]["state_ok"] = bool(ok)
        except Abort:
            pass
        finally:
            lp.queue, lp.Collector.start = old_queue, old_start
        paths.append((log, dict(dec), [a for a in e.solver.assertions()]))
    st = explore(consumer, max_paths=int(os.environ.get("VT_POCOMP_MAX_PATHS", "4000")),
                 deadline=time.time() + float(os.environ.get("VT_POCOMP_EXTRACT_S", "240")))
    return paths, st


class Composition:
    def __init__(self, lp, T, nmax, fail=False, early=False, query_timeout_s=600, none_inputs=False):
        t0 = time.time()
        self.query_timeout_s = query_timeout_s
        self.T, self.nmax, self.fail, self.early = T, nmax, fail, early
        self.WP, wst = extract_worker(lp, nmax, fail)
        self.CP, cst = extract_consumer(lp, T, nmax, early, none_inputs=none_inputs)
        self.extract_stats = dict(worker_paths=len(self.WP), consumer_paths=len(self.CP), worker_explore=wst.as_dict(),
                                  consumer_explore=cst.as_dict(), extract_s=round(time.time() - t0, 2))
        self.inconclusive = wst.inconclusive + cst.inconclusive
        self.queries = []
        self._encode()

    # ------------------------------------------------------------------------------------------
    def _encode(self):
        T, NMAX = self.T, self.nmax
        s = self.s = z3.Solver()
        s.set("timeout", int(self.query_timeout_s * 1000))
        self.n = z3.Int("n")
        self.x = z3.Int("x")
        threads = self.threads = ["c"] + [f"w{w}" for w in range(T)]
        P = self.P = {"c": self.CP, **{f"w{w}": self.WP for w in range(T)}}
        sel = self.sel = {t: z3.Int(f"sel_{t}") for t in threads}
        cut = self.cut = {t: z3.Int(f"cut_{t}") for t in threads}
        maxlen = {t: max(len(p[0]) for p in P[t]) for t in threads}
        ts = self.ts = {t: [z3.Int(f"ts_{t}_{k}") for k in range(maxlen[t] + 1)] for t in threads}
        I, B = z3.IntSort(), z3.BoolSort()
        kindQp, idxQp, tsPutQp = z3.Function("kindQp", I, I), z3.Function("idxQp", I, I), z3.Function("tsPutQp", I, I)
        kindQr, idxQr, tsPutQr = z3.Function("kindQr", I, I), z3.Function("idxQr", I, I), z3.Function("tsPutQr", I, I)
        self.idxQr = idxQr
        Fail = self.Fail = z3.Function("Fail", I, B)
        NputQp, NgetQp, NputQr, NgetQr = z3.Int("NputQp"), z3.Int("NgetQp"), z3.Int("NputQr"), z3.Int("NgetQr")
        self.counts = (NputQp, NgetQp, NputQr, NgetQr)
        R = {f"w{w}": [z3.Int(f"R_w{w}_{m}") for m in range(NMAX + 4)] for w in range(T)}
        S = {f"w{w}": [z3.Int(f"S_w{w}_{m}") for m in range(2 * NMAX + 6)] for w in range(T)}
        Rc = [z3.Int(f"R_c_{m}") for m in range(2 * NMAX + 2 * T + 8)]
        spawn_ts = [z3.Int(f"spawn_ts{w}") for w in range(T)]
        spawned = self.spawned = [z3.Bool(f"spawned{w}") for w in range(T)]
        for t in threads:
            s.add(sel[t] >= 0, sel[t] < len(P[t]), cut[t] >= 0)
            for k in range(maxlen[t]):
                s.add(ts[t][k] < ts[t][k + 1])
            s.add(ts[t][0] >= 0)
        blocked, finished, limit_hit = {}, {}, []
        capQp, capQr = self.capQp, self.capQr = z3.Int("capQp"), z3.Int("capQr")  # 0 = unbounded
        bounded = self.bounded_queues = any(path[1].get("_cap_qp", 0) or path[1].get("_cap_qr", 0) for path in P["c"])
        if bounded:  # (the code under test creates unbounded queues: nothing to encode then)
            for pi, path in enumerate(P["c"]):
                s.add(z3.Implies(sel["c"] == pi, z3.And(capQp == path[1].get("_cap_qp", 0), capQr == path[1].get("_cap_qr", 0))))
        foreign = self.foreign_raises = []
        wgets, wputs, cputs_qp, cgets_qr = [], [], [], []
        emits, raises, normal_end, state_bad, items_put = [], [], [], [], []
        late = self.after_failure = []  # the consumer yields a result / hands out a new input although it already holds a failure
        timeouts = []  # (ex, thread ts, queue)
        self.events = {}
        for t in threads:
            bl, fi = [], []
            for pi, path in enumerate(P[t]):
                log, dec = path[0], path[1]
                here = sel[t] == pi
                s.add(z3.Implies(here, cut[t] <= len(log)))
                if t == "c":
                    s.add(z3.Implies(here, z3.And(*path[2]) if path[2] else z3.BoolVal(True)))
                pq = {"qp": 0, "qr": 0}
                getrank = {}
                nspawn = 0
                got_failure = False  # consumer only: a failure record has been received earlier on this path
                for k, ev in enumerate(log):
                    ex = z3.And(here, cut[t] > k)
                    nxt = z3.And(here, cut[t] == k)
                    kind = ev["kind"]
                    if kind == "LIMIT":
                        limit_hit.append(nxt)
                        s.add(z3.Implies(here, cut[t] <= k))
                        continue
                    if kind == "spawn":
                        w_ = nspawn
                        nspawn += 1
                        if w_ < T:
                            s.add(z3.Implies(ex, z3.And(spawned[w_], spawn_ts[w_] == ts[t][k])))
                            s.add(z3.Implies(z3.And(here, cut[t] <= k), z3.Not(spawned[w_])))
                    elif kind == "get":
                        q, m = ev["q"], ev["m"]
                        nm = f"{q}{m}"
                        if t == "c" and q == "qp":
                            # the consumer takes elements back from its own work queue: one more party on the get side
                            r = Rc[m]
                            wgets.append((ex, r, ts[t][k]))
                            s.add(z3.Implies(ex, z3.And(r >= 0, r < NputQp, tsPutQp(r) < ts[t][k])))
                            if nm in dec:
                                s.add(z3.Implies(ex, kindQp(r) == dec[nm]))
                            if not ev.get("nonblocking"):
                                bl.append(z3.And(nxt, NgetQp >= NputQp))
                            getrank[nm] = r
                        elif t == "c":
                            if q.rstrip("'") != "qr" or q.endswith("'"):
                                raise Inconclusive(f"consumer gets from {q}")
                            s.add(z3.Implies(ex, z3.And(m < NputQr, tsPutQr(m) < ts[t][k])))
                            if nm in dec:
                                s.add(z3.Implies(ex, kindQr(m) == dec[nm]))
                            bl.append(z3.And(nxt, NputQr <= m))
                            cgets_qr.append((ex, ts[t][k]))
                            getrank[nm] = m
                            if isinstance(dec.get(nm), int) and dec.get(nm) == K_FAILED:
                                got_failure = True
                        else:
                            if q != "qp":
                                raise Inconclusive(f"worker gets from {q}")
                            r = R[t][m]
                            wgets.append((ex, r, ts[t][k]))
                            s.add(z3.Implies(ex, z3.And(r >= 0, r < NputQp, tsPutQp(r) < ts[t][k])))
                            if nm in dec:
                                s.add(z3.Implies(ex, kindQp(r) == dec[nm]))
                            if "fail_" + nm in dec:
                                s.add(z3.Implies(ex, Fail(idxQp(r)) == dec["fail_" + nm]))
                            if not ev.get("nonblocking"):
                                bl.append(z3.And(nxt, NgetQp >= NputQp))
                            getrank[nm] = r
                    elif kind == "get-timeout":
                        timeouts.append((ex, ts[t][k], ev["q"], t, None))
                    elif kind == "probe-empty":
                        timeouts.append((ex, ts[t][k], ev["q"].rstrip("'"), t, ev["result"]))
                    elif kind == "probe-size":
                        timeouts.append((ex, ts[t][k], ev["q"].rstrip("'"), t, ("size", ev["var"])))
                    elif kind == "put":
                        q, val = ev["q"], ev["val"]
                        if t == "c":
                            if q != "qp":
                                if q.endswith("'"):
                                    continue
                                raise Inconclusive(f"consumer puts on {q}")
                            j = pq["qp"]
                            pq["qp"] += 1
                            s.add(z3.Implies(ex, z3.And(tsPutQp(j) == ts[t][k],
                                                        kindQp(j) == (K_SENT if val[0] == "sent" else K_PLAIN),
                                                        idxQp(j) == (val[1] if val[0] == "item" else -1))))
                            cputs_qp.append((ex, ts[t][k]))
                            if bounded:
                                bl.append(z3.And(nxt, capQp > 0, NputQp - NgetQp >= capQp))  # put on a full bounded queue blocks
                            if val[0] == "item":
                                items_put.append(ex)
                                if got_failure:
                                    late.append(ex)
                        else:
                            if q != "qr":
                                raise Inconclusive(f"worker puts on {q}")
                            j = pq["qr"]
                            pq["qr"] += 1
                            sr = S[t][j]
                            wputs.append((ex, sr, ts[t][k]))
                            if bounded:
                                bl.append(z3.And(nxt, capQr > 0, NputQr - NgetQr >= capQr))  # put on a full bounded queue blocks
                            base = z3.And(sr >= 0, sr < NputQr, tsPutQr(sr) == ts[t][k])
                            if val[0] == "sent":  # a sentinel made up by the worker itself
                                s.add(z3.Implies(ex, z3.And(base, kindQr(sr) == K_SENT, idxQr(sr) == -1)))
                            else:
                                src = getrank.get(val[1])
                                if src is None:
                                    raise Inconclusive(f"worker put refers to an unknown get {val}")
                                if val[0] == "fwd":
                                    s.add(z3.Implies(ex, z3.And(base, kindQr(sr) == kindQp(src), idxQr(sr) == idxQp(src))))
                                elif val[0] == "res":
                                    s.add(z3.Implies(ex, z3.And(base, kindQr(sr) == K_PLAIN, idxQr(sr) == idxQp(src))))
                                elif val[0] == "failed":
                                    s.add(z3.Implies(ex, z3.And(base, kindQr(sr) == K_FAILED, idxQr(sr) == idxQp(src))))
                                else:
                                    raise Inconclusive(f"worker put {val}")
                    elif kind == "emit":
                        src = ev["src"]
                        if src is None or src not in getrank:
                            raise Inconclusive("consumer emitted something that did not come from the results queue")
                        emits.append((ex, getrank[src], ts[t][k]))
                        if got_failure:
                            late.append(ex)
                    elif kind == "RAISE":
                        raises.append(ex)
                        if ev.get("foreign"):
                            foreign.append(ex)
                    elif kind == "END":
                        if t == "c":
                            if not any(e2["kind"] == "RAISE" for e2 in log):
                                normal_end.append(z3.And(here, cut[t] == len(log)))
                            if ev.get("state_ok") is False:
                                state_bad.append(z3.And(here, cut[t] == len(log)))
                    if t != "c" and k == 0:
                        w = int(t[1:])
                        s.add(z3.Implies(ex, z3.And(spawned[w], spawn_ts[w] < ts[t][0])))
                if t == "c":
                    for c in range(len(log) + 1):
                        at = z3.And(here, cut[t] == c)
                        s.add(z3.Implies(at, NputQp == sum(1 for ev in log[:c] if ev["kind"] == "put" and ev["q"] == "qp")))
                        s.add(z3.Implies(at, NgetQr == sum(1 for ev in log[:c] if ev["kind"] == "get" and ev["q"] == "qr")))
                if log and log[-1]["kind"] in ("END", "DIE"):
                    fi.append(z3.And(here, cut[t] == len(log)))
            blocked[t] = z3.Or(bl) if bl else z3.BoolVal(False)
            finished[t] = z3.Or(fi) if fi else z3.BoolVal(False)
        s.add(NgetQp == z3.Sum([z3.If(ex, 1, 0) for ex, _, _ in wgets] + [z3.IntVal(0)]))
        s.add(NputQr == z3.Sum([z3.If(ex, 1, 0) for ex, _, _ in wputs] + [z3.IntVal(0)]))
        if len(wgets) > 1000 or len(wputs) > 1000:
            # the pairwise FIFO constraints are quadratic: beyond this the composition is not built within any budget
            raise Inconclusive(f"composition too large ({len(wgets)} get / {len(wputs)} put events over all thread paths): "
                               f"the per-thread summaries of this configuration exploded")
        for lst in (wgets, wputs):
            for a in range(len(lst)):
                for b in range(a + 1, len(lst)):
                    (ea, ra, ta), (eb, rb, tb) = lst[a], lst[b]
                    s.add(z3.Implies(z3.And(ea, eb), z3.And(ra != rb, (ra < rb) == (ta < tb))))
        for ex, r, _ in wgets:
            s.add(z3.Implies(ex, r < NgetQp))
        for ex, r, _ in wputs:
            s.add(z3.Implies(ex, r < NputQr))
        for w in range(T):
            s.add(z3.Implies(z3.Not(spawned[w]), cut[f"w{w}"] == 0))
        # a put on a bounded queue happens only at an instant at which the queue is not full
        for ex, sr_, tt in (wputs if bounded else []):
            # the FIFO rank of a put is the number of puts before it (ranks are a bijection onto 0..Nput-1 ordered like the timestamps)
            nget = z3.Sum([z3.If(z3.And(e2, t2 < tt), 1, 0) for e2, t2 in cgets_qr] + [z3.IntVal(0)])
            s.add(z3.Implies(z3.And(ex, capQr > 0), sr_ - nget < capQr))
        for ex, tt in (cputs_qp if bounded else []):
            nput = z3.Sum([z3.If(z3.And(e2, t2 < tt), 1, 0) for e2, t2 in cputs_qp] + [z3.IntVal(0)])
            nget = z3.Sum([z3.If(z3.And(e2, t2 < tt), 1, 0) for e2, _, t2 in wgets] + [z3.IntVal(0)])
            s.add(z3.Implies(z3.And(ex, capQp > 0), nput - nget < capQp))
        # a get may time out only while its queue is empty at that instant
        for ex, tt, q, who, probe in timeouts:
            if q == "qp":
                nput = z3.Sum([z3.If(z3.And(e2, t2 < tt), 1, 0) for e2, t2 in cputs_qp] + [z3.IntVal(0)])
                nget = z3.Sum([z3.If(z3.And(e2, t2 < tt), 1, 0) for e2, _, t2 in wgets] + [z3.IntVal(0)])
            else:
                nput = z3.Sum([z3.If(z3.And(e2, t2 < tt), 1, 0) for e2, _, t2 in wputs] + [z3.IntVal(0)])
                nget = z3.Sum([z3.If(z3.And(e2, t2 < tt), 1, 0) for e2, t2 in cgets_qr] + [z3.IntVal(0)])
            if isinstance(probe, tuple):
                s.add(z3.Implies(ex, probe[1] == nput - nget))  # qsize() answers truthfully for that instant
            elif probe is None:
                s.add(z3.Implies(ex, nput == nget))  # a get may time out only while its queue is empty
            else:
                s.add(z3.Implies(ex, (nput == nget) == probe))  # empty() answers truthfully for that instant
        s.add(self.n >= 0, self.n <= NMAX)
        if self.fail:
            self.j0 = z3.Int("failing_input")
            i_ = z3.Int("i_")
            s.add(z3.ForAll([i_], Fail(i_) == (i_ == self.j0)))
        self.blocked, self.finished, self.limit_hit = blocked, finished, limit_hit
        self.emits, self.raises, self.normal_end, self.state_bad, self.items_put = emits, raises, normal_end, state_bad, items_put
        self.has_timeouts = bool(timeouts)

    # ------------------------------------------------------------------------------------------
    def query(self, name, *extra, expect):
        t = time.time()
        self.s.push()
        self.s.add(*extra)
        r = self.s.check()
        model = self.s.model() if r == z3.sat else None
        self.s.pop()
        rec = dict(query=name, result=str(r), expected=expect, solver_s=round(time.time() - t, 2),
                   T=self.T, nmax=self.nmax, fail=self.fail, early=self.early)
        self.queries.append(rec)
        return str(r), model

    def all_stuck(self):
        return z3.And(*[z3.Or(self.blocked[t], self.finished[t]) for t in self.threads])

    def any_blocked(self):
        return z3.Or(*[self.blocked[t] for t in self.threads])

    def all_finished(self):
        return z3.And(*[self.finished[t] for t in self.threads])

    def schedule(self, model):
        """Concrete description of a model: n, failing input, per thread the executed events, and the total order."""
        out = dict(T=self.T, n=model.eval(self.n, model_completion=True).as_long(), threads={}, order=[])
        if self.fail:
            out["failing_input"] = model.eval(self.j0, model_completion=True).as_long()
        if self.early:
            out["early_exit_after"] = model.eval(self.x, model_completion=True).as_long()
        allev = []
        for t in self.threads:
            pi = model.eval(self.sel[t], model_completion=True).as_long()
            c = model.eval(self.cut[t], model_completion=True).as_long()
            log = self.P[t][pi][0]
            evs = []
            for k, ev in enumerate(log[:c]):
                desc = (ev["kind"], ev.get("q"), ev.get("val", ev.get("m", ev.get("src", ev.get("i")))))
                evs.append(desc)
                if ev["kind"] in ("get", "put", "get-timeout"):
                    allev.append((model.eval(self.ts[t][k], model_completion=True).as_long(), t, ev["kind"], ev["q"]))
            nxt = log[c] if c < len(log) else None
            if t == "c" and any(ev["kind"] == "consumer-raises" for ev in log[:c]):
                out["consumer_raises"] = True
            if t == "c" and self.P[t][pi][1].get("_none_index") is not None:
                out["none_input"] = self.P[t][pi][1]["_none_index"]
            out["threads"][t] = dict(executed=[list(map(str, d)) for d in evs],
                                     next=(str((nxt["kind"], nxt.get("q"))) if nxt else None))
        allev.sort()
        out["order"] = [[t, k, q] for _, t, k, q in allev]
        return out


# ------------------------------------------------------------------------------------------------
def replay_schedule(sched, watchdog_s=6.0):
    """Run the REAL LazyPool with real threads; queue operations are gated to follow the model's total order.
    Returns dict(hung, emitted, raised, deviation)."""
    import sedpack.io.itertools.lazy_pool as lp
    lp = importlib.reload(lp)
    order = [tuple(x) for x in sched["order"]]
    state = dict(pos=0, deviated=False)
    cv = threading.Condition()
    names = {}  # thread ident -> model thread name
    worker_count = [0]
    main_ident = threading.get_ident()
    names[main_ident] = "c"
    qnames = {}

    def who():
        return names.get(threading.get_ident())

    def gate(kind, q, timed=False):
        me = who()
        with cv:
            end = time.time() + watchdog_s
            while not state["deviated"] and state["pos"] < len(order):
                t, k, qq = order[state["pos"]]
                if t == me:
                    if (k, qq) == (kind, q) or (k == "get-timeout" and kind == "get" and qq == q):
                        return k
                    state["deviated"] = True
                    cv.notify_all()
                    return None
                if not cv.wait(timeout=0.05) and time.time() > end:
                    state["deviated"] = True
                    cv.notify_all()
            return None

    def done():
        with cv:
            if not state["deviated"] and state["pos"] < len(order):
                state["pos"] += 1
            cv.notify_all()

    class GQ(realqueue.Queue):
        def __class_getitem__(cls, _):
            return cls

        def __init__(self, *a, **k):
            super().__init__(*a, **k)
            qnames[id(self)] = ["qp", "qr"][len(qnames) % 2]

        def put(self, item, *a, **k):
            g = gate("put", qnames[id(self)])
            super().put(item, *a, **k)
            if g:
                done()

        def get(self, block=True, timeout=None):
            g = gate("get", qnames[id(self)])
            if g == "get-timeout":
                done()
                raise realqueue.Empty()
            if g:
                v = super().get(True, 2.0)
                done()
                return v
            return super().get(block, timeout)

    lp.queue = types.SimpleNamespace(Queue=GQ, Empty=realqueue.Empty)
    real_run = lp.Collector.run

    def run(self):
        with cv:
            names[threading.get_ident()] = f"w{worker_count[0]}"
            worker_count[0] += 1
        return real_run(self)
    lp.Collector.run = run
    real_start = lp.Collector.start

    def start(self):
        self.daemon = True  # a leaked worker must not keep the replay process alive
        return real_start(self)
    lp.Collector.start = start
    n, T = sched["n"], sched["T"]
    failing = sched.get("failing_input")
    early = sched.get("early_exit_after")
    result = dict(hung=False, emitted=[], raised=None, deviation=False)

    def f(x):
        if failing is not None and x == failing:
            raise Boom(f"input {x}")
        return x

    def consume():
        names[threading.get_ident()] = "c"
        box = {}
        try:
            try:
                _consume(box)
            except Exception as exc:  # noqa: BLE001 - an exception that is neither the consumer's own nor the mapped function's
                result["foreign_exception"] = f"{type(exc).__name__}: {exc}"
                result["finished"] = True
        finally:
            pool = box.get("pool")
            if pool is not None and all(hasattr(pool, a) for a in ("_active_threads", "_to_process", "_results")):
                result["pool_state_ok"] = bool(pool._active_threads <= 0 and pool._to_process is None and pool._results is None)

    def _consume(box):
        try:
            with lp.LazyPool(T) as pool:
                box["pool"] = pool
                for r in pool.imap_unordered(f, range(n)):
                    result["emitted"].append(r)
                    if early is not None and len(result["emitted"]) == early:
                        if sched.get("consumer_raises"):
                            raise ConsumerError("the consumer's loop body fails")
                        break
        except ConsumerError:
            pass
        except Boom as exc:
            result["raised"] = str(exc)
        result["finished"] = True

    th = threading.Thread(target=consume, daemon=True)
    before = set(threading.enumerate())
    th.start()
    th.join(watchdog_s)
    time.sleep(0.3)
    leaked = [t for t in threading.enumerate() if t not in before and t is not th and t.is_alive()]
    result["hung"] = th.is_alive()
    result["leaked_workers"] = len(leaked)
    result["deviation"] = state["deviated"]
    result["order_followed"] = state["pos"]
    # release whatever is stuck (daemon threads die with the process)
    with cv:
        state["deviated"] = True
        cv.notify_all()
    return result
