"""Shared plumbing: environment, result record, evidence, known findings, replay files."""
from __future__ import annotations

import contextlib
import dataclasses
import hashlib
import importlib
import inspect
import json
import os
import shutil
import sys
import tempfile
import time
import types
from pathlib import Path
from typing import Any

VERIF = Path(__file__).resolve().parent.parent
REPO = Path(os.environ.get("VT_REPO", "/repo"))
EVIDENCE_DIR = VERIF / "evidence"
REPLAY_DIR = VERIF / "replays"
KNOWN_FINDINGS = VERIF / "known_findings.json"
GUARD = "SEDPACK_VERIF"

EXIT_OK, EXIT_VIOLATION, EXIT_INCONCLUSIVE, EXIT_HARNESS = 0, 1, 2, 3


# ---------------------------------------------------------------------------------------------
def stub_tensorflow():
    """Checks that do not need TensorFlow run with a stub module (import 13 s -> <1 s)."""
    if "tensorflow" in sys.modules:
        return
    tf = types.ModuleType("tensorflow")
    tf.device = lambda *_a, **_k: contextlib.nullcontext()
    tf.__vt_stub__ = True

    def _missing(name):
        raise RuntimeError(f"tensorflow stub: attribute {name} used by a check that declared it does not need TF")

    tf.__getattr__ = _missing  # type: ignore[attr-defined]
    sys.modules["tensorflow"] = tf


def import_sedpack(need_tf=False):
    """Import sedpack fresh from the working tree of /repo (editable install points there)."""
    src = str(REPO / "src")
    if src not in sys.path:
        sys.path.insert(0, src)
    os.environ.setdefault("TF_CPP_MIN_LOG_LEVEL", "3")
    os.environ.setdefault("CUDA_VISIBLE_DEVICES", "")
    if not need_tf:
        stub_tensorflow()
    import sedpack  # noqa: F401
    import sedpack.io  # noqa: F401
    return sedpack


def source_hashes(qualnames: list[str]) -> list[dict]:
    """[{function, file, sha1}] for evidence: the encoding is regenerated from these sources."""
    out = []
    for qn in qualnames:
        modname, _, attr = qn.partition(":")
        try:
            obj: Any = importlib.import_module(modname)
            for part in attr.split("."):
                obj = getattr(obj, part)
            obj = getattr(obj, "__func__", obj)
            obj = getattr(obj, "fget", obj)
            src = inspect.getsource(obj)
            f = inspect.getsourcefile(obj)
            out.append(dict(function=qn, file=str(f), sha1=hashlib.sha1(src.encode()).hexdigest()[:12]))
        except Exception as exc:  # noqa: BLE001
            out.append(dict(function=qn, error=f"{type(exc).__name__}: {exc}"))
    return out


def file_hash(path: Path) -> str:
    return hashlib.sha1(Path(path).read_bytes()).hexdigest()[:12]


@contextlib.contextmanager
def scratch_dir(prefix="vt_"):
    base = os.environ.get("VT_SCRATCH") or tempfile.gettempdir()
    d = Path(tempfile.mkdtemp(prefix=prefix, dir=base))
    try:
        yield d
    finally:
        shutil.rmtree(d, ignore_errors=True)


# ---------------------------------------------------------------------------------------------
@dataclasses.dataclass
class Violation:
    signature: str  # stable, specific identification of what fails (input / call site / history)
    description: str
    case: dict  # everything `replay` needs to reproduce it on the real code


@dataclasses.dataclass
class Result:
    property_id: str
    engine: str
    explanation: str
    functions: list[str]
    bounds: dict
    stats: dict  # paths, queries, solver_s, obligations, discharged, ...
    samples: list
    assumptions: list[str]
    outside: list[str]
    violations: list[Violation] = dataclasses.field(default_factory=list)
    inconclusive: list[str] = dataclasses.field(default_factory=list)
    harness_errors: list[str] = dataclasses.field(default_factory=list)
    twin: dict = dataclasses.field(default_factory=dict)
    extra: dict = dataclasses.field(default_factory=dict)
    evaluations: int = 0
    distinct_nontrivial: int = 0
    rule: str = ""
    exhaustive: bool = True


def load_findings() -> list[dict]:
    if not KNOWN_FINDINGS.exists():
        return []
    return json.loads(KNOWN_FINDINGS.read_text())["findings"]


def write_evidence(res: Result, tier: str, seed: int, wall: float, n_viol: int, reported: list):
    EVIDENCE_DIR.mkdir(exist_ok=True)
    cov = dict(
        explanation=res.explanation,
        engine=res.engine,
        functions_encoded=source_hashes(res.functions),
        bounds=res.bounds,
        outside_the_claim=res.outside,
        obligations=int(res.stats.get("obligations", 0)),
        discharged=int(res.stats.get("discharged", 0)),
        queries=int(res.stats.get("queries", 0)),
        solver_s=float(res.stats.get("solver_s", 0.0)),
        paths=int(res.stats.get("paths", 0)),
        realisation_forks=int(res.stats.get("realisation_forks", 0)),
        stats=res.stats,
        evaluations=max(1, int(res.evaluations or res.stats.get("paths", 0) or 1)),
        distinct_nontrivial=max(2, int(res.distinct_nontrivial or res.stats.get("paths", 0) or 2))
        if (res.distinct_nontrivial or res.stats.get("paths", 0) or 0) >= 2 else int(res.distinct_nontrivial or 0),
        rule=res.rule,
        samples=res.samples[:8] or ["(no sample recorded)"],
        exhaustive=bool(res.exhaustive and not res.inconclusive),
        vacuity_twin=res.twin,
        inconclusive=res.inconclusive,
        harness_errors=res.harness_errors,
        reported=reported,
        repo_head=_repo_head(),
        **res.extra,
    )
    ev = dict(property_id=res.property_id, tier=tier, seed=int(seed), level="other", coverage=cov,
              assumptions=res.assumptions, wall_s=round(wall, 2), violations=int(n_viol))
    (EVIDENCE_DIR / f"{res.property_id}.json").write_text(json.dumps(ev, indent=1, default=str) + "\n")


def _repo_head():
    try:
        import subprocess
        h = subprocess.run(["git", "-C", str(REPO), "rev-parse", "--short", "HEAD"], capture_output=True, text=True).stdout.strip()
        dirty = subprocess.run(["git", "-C", str(REPO), "status", "--porcelain", "--untracked-files=no"], capture_output=True, text=True).stdout.strip()
        return h + ("+dirty" if dirty else "")
    except Exception:  # noqa: BLE001
        return "?"


def save_replay(prop: str, module: str, v: Violation) -> Path:
    REPLAY_DIR.mkdir(exist_ok=True)
    h = hashlib.sha1(json.dumps([v.signature, v.case], sort_keys=True, default=str).encode()).hexdigest()[:10]
    p = REPLAY_DIR / f"{prop}-{h}.json"
    p.write_text(json.dumps(dict(property=prop, module=module, signature=v.signature, description=v.description,
                                 case=v.case), indent=1, default=str) + "\n")
    return p


class Timer:
    def __init__(self):
        self.t = time.time()

    def __call__(self):
        return time.time() - self.t
