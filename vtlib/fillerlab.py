"""Helpers to drive the real writer API (Dataset / DatasetFiller / Shard writers) from harnesses."""
from __future__ import annotations

from pathlib import Path

import numpy as np


def make_dataset(root: Path, ft="fb", eps=4, attrs=None, hashes=("md5",), compression=""):
    from sedpack.io import Attribute, Dataset, DatasetStructure, Metadata
    ds = DatasetStructure(
        saved_data_description=attrs or [Attribute(name="a", dtype="int32", shape=(2,))],
        shard_file_type=ft, compression=compression, examples_per_shard=eps,
        hash_checksum_algorithms=tuple(hashes))
    return Dataset.create(path=root, metadata=Metadata(description="vt"), dataset_structure=ds)


class DatasetView:
    """What DatasetFiller needs from a dataset (path, dataset_structure, write_config), with a
    dataset_structure copy whose `examples_per_shard` may be a symbolic integer.  The copy is never
    serialised; the real dataset object keeps its concrete structure."""

    def __init__(self, dataset, examples_per_shard=None):
        self._d = dataset
        self.path = dataset.path
        ds = dataset.dataset_structure.model_copy()
        if examples_per_shard is not None:
            ds.examples_per_shard = examples_per_shard
        self.dataset_structure = ds

    def write_config(self, updated_infos):
        return self._d.write_config(updated_infos=updated_infos)


def open_filler(dataset, E=None, relative: Path | None = None, auto_update=True):
    from sedpack.io.dataset_filler import DatasetFiller
    view = DatasetView(dataset, E) if E is not None else dataset
    if relative is None:
        return DatasetFiller(view, auto_update_dataset=auto_update)
    return DatasetFiller(view, relative_path_from_split=relative, auto_update_dataset=auto_update)


def example(i: int):
    return {"a": np.array([i, i], np.int32)}


def read_split(d, split, **kw):
    return [int(e["a"][0]) for e in d.as_numpy_iterator(split=split, repeat=False, shuffle=0, **kw)]


def shard_infos(d, split):
    if split not in d._dataset_info.splits:  # pylint: disable=protected-access
        return []
    return list(d.shard_info_iterator(split))


def decode_values(d, shard_info):
    """Examples decodable from the shard file with the real reader of the dataset's format."""
    from sedpack.io.flatbuffer import IterateShardFlatBuffer
    from sedpack.io.npz import IterateShardNP
    ft = d.dataset_structure.shard_file_type
    cls = {"fb": IterateShardFlatBuffer, "npz": IterateShardNP}[ft]
    it = cls(dataset_structure=d.dataset_structure, process_record=None)
    out = []
    for e in it.iterate_shard(d.path / shard_info.file_infos[0].file_path):
        try:
            out.append(int(e["a"][0]))
        except Exception:  # noqa: BLE001 - the example decodes, its first attribute is just not our integer id
            out.append(None)
    return out
