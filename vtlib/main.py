"""vt - command line entry: `vt setup | check <ID> [--tier quick|thorough] | replay <file>`."""
from __future__ import annotations

import argparse
import importlib
import json
import os
import subprocess
import sys
import traceback
import types
from pathlib import Path

from . import common
from .common import EXIT_HARNESS, EXIT_INCONCLUSIVE, EXIT_OK, EXIT_VIOLATION


def _module_for(prop: str):
    return importlib.import_module(f"vtlib.checks.{prop.lower()}")


def cmd_check(prop: str, tier: str, seed: int) -> int:
    timer = common.Timer()
    if tier == "thorough":
        os.environ.setdefault("VT_CELL_BUDGET_S", "2700")  # per exploration cell; the quick tier keeps 900 s
    mod = _module_for(prop)
    try:
        res: common.Result = mod.run(tier, seed)
    except BaseException as exc:  # noqa: BLE001
        traceback.print_exc()
        print(f"HARNESS-ERROR property={prop} {type(exc).__name__}: {exc}")
        return EXIT_HARNESS
    findings = [f for f in common.load_findings() if f["property"] == prop]
    known = {f["signature"]: f for f in findings if f["status"] == "known"}
    reported = []
    unlisted = 0
    seen_known = set()
    for v in res.violations:
        path = common.save_replay(prop, mod.__name__, v)
        try:
            rc = subprocess.run([sys.executable, "-m", "vtlib.main", "replay", str(path)], cwd=str(common.VERIF),
                                capture_output=True, text=True, timeout=900)
        except subprocess.TimeoutExpired as te:
            rc = types.SimpleNamespace(returncode=EXIT_HARNESS, stdout=f"replay did not finish within 900 s: {te}", stderr="")
        reproduced = rc.returncode == 1
        if not reproduced:
            res.harness_errors.append(f"counter-example did not reproduce on the real code: {v.signature}: "
                                      f"{(rc.stdout + rc.stderr)[-400:]}")
            reported.append(dict(signature=v.signature, status="not-reproduced", replay=str(path)))
            continue
        if v.signature in known:
            if v.signature not in seen_known:
                print(f"KNOWN-FINDING: property={prop} {known[v.signature]['description']} [{v.signature}]")
            seen_known.add(v.signature)
            reported.append(dict(signature=v.signature, status="known-finding", replay=str(path)))
            path.unlink(missing_ok=True)
        else:
            unlisted += 1
            print(f"VIOLATION property={prop} replay={path}")
            print(f"  what: {v.description}")
            reported.append(dict(signature=v.signature, status="violation", replay=str(path), description=v.description))
    for sig, f in known.items():
        if sig not in seen_known:
            print(f"note: listed finding not re-derived by this run/tier: property={prop} [{sig}]")
    wall = timer()
    common.write_evidence(res, tier, seed, wall, unlisted, reported)
    s = res.stats
    print(f"{prop} tier={tier} engine={res.engine} paths={s.get('paths')} obligations={s.get('obligations')} "
          f"discharged={s.get('discharged')} queries={s.get('queries')} solver_s={s.get('solver_s')} wall={wall:.1f}s "
          f"violations={unlisted} known={len(seen_known)} inconclusive={len(res.inconclusive)} harness_errors={len(res.harness_errors)}")
    if unlisted:
        return EXIT_VIOLATION
    if res.harness_errors:
        for h in res.harness_errors[:5]:
            print("HARNESS-ERROR", h)
        return EXIT_HARNESS
    if res.inconclusive:
        for h in res.inconclusive[:5]:
            print("INCONCLUSIVE", h)
        return EXIT_INCONCLUSIVE
    return EXIT_OK


def cmd_replay(path: str) -> int:
    rec = json.loads(Path(path).read_text())
    mod = importlib.import_module(rec["module"])
    try:
        reproduced, detail = mod.replay(rec["case"])
    except BaseException as exc:  # noqa: BLE001
        traceback.print_exc()
        print(f"replay crashed: {type(exc).__name__}: {exc}")
        return EXIT_HARNESS
    print(("REPRODUCED " if reproduced else "NOT-REPRODUCED ") + rec["property"] + " " + rec["signature"])
    print(detail)
    sys.stdout.flush()
    sys.stderr.flush()
    # a reproduced defect may have left blocked non-daemon threads behind: do not wait for them at interpreter exit
    os._exit(1 if reproduced else 0)


def main(argv=None) -> int:
    ap = argparse.ArgumentParser(prog="vt")
    sub = ap.add_subparsers(dest="cmd", required=True)
    c = sub.add_parser("check")
    c.add_argument("prop")
    c.add_argument("--tier", default=os.environ.get("VERIF_TIER", "quick"), choices=["quick", "thorough"])
    r = sub.add_parser("replay")
    r.add_argument("path")
    sub.add_parser("setup")
    a = ap.parse_args(argv)
    if a.cmd == "setup":
        print("setup ok (dependencies are created by the ./vt wrapper)")
        return 0
    if a.cmd == "check":
        seed = int(os.environ.get("VERIF_SEED", "0") or 0)
        return cmd_check(a.prop.upper(), a.tier, seed)
    if a.cmd == "replay":
        return cmd_replay(a.path)
    return 2


if __name__ == "__main__":
    try:
        code = main()
    except SystemExit:
        raise
    except BaseException as exc:  # noqa: BLE001 - an internal error must never look like a verdict (exit 1)
        traceback.print_exc()
        print(f"HARNESS-ERROR internal error: {type(exc).__name__}: {exc}")
        code = EXIT_HARNESS
    sys.stdout.flush()
    sys.stderr.flush()
    os._exit(code)
