"""Independent audit of a dataset directory's metadata tree (does not use sedpack's loaders for the
metadata; parses the JSON documents itself; shard contents are counted with the real decoder)."""
from __future__ import annotations

import json
from pathlib import Path


def audit(d, decode_counts=True) -> list[str]:
    """d: an open sedpack Dataset (used only for its path and, optionally, the shard decoder)."""
    from . import fillerlab
    root = Path(d.path)
    problems: list[str] = []
    info = json.loads((root / "dataset_info.json").read_text())
    listed: dict[str, str] = {}
    ext = "." + info["dataset_structure"].get("shard_file_type", "tfrec")

    def audit_list(rel: str):
        p = root / rel
        if not p.is_file():
            problems.append(f"shard list {rel} does not exist")
            return 0, 0
        doc = json.loads(p.read_text())
        if doc.get("relative_path_self") != rel:
            problems.append(f"{rel}: relative_path_self is {doc.get('relative_path_self')}")
        here = Path(rel).parent
        ex = sh = 0
        for s in doc.get("shard_files", []):
            fp = s["file_infos"][0]["file_path"]
            if Path(fp).parent != here:
                problems.append(f"{rel}: shard {fp} is not in the directory of the list naming it")
            if fp in listed:
                problems.append(f"shard file {fp} listed twice ({listed[fp]} and {rel})")
            listed[fp] = rel
            if not (root / fp).is_file():
                problems.append(f"{rel}: listed shard file {fp} does not exist")
                continue
            n = s.get("number_of_examples", 0)
            if n < 1:
                problems.append(f"{rel}: shard {fp} records {n} examples")
            if decode_counts:
                from sedpack.io.shard_file_metadata import ShardInfo
                try:
                    got = len(fillerlab.decode_values(d, ShardInfo.model_validate(s)))
                except Exception as exc:  # noqa: BLE001
                    problems.append(f"{rel}: shard {fp} cannot be decoded: {type(exc).__name__}")
                    got = n
                if got != n:
                    problems.append(f"{rel}: shard {fp} records {n} examples, file holds {got}")
            ex += n
            sh += 1
        for c in doc.get("children_shard_lists", []):
            cp = c["shard_list_info_file"]["file_path"]
            if Path(cp).parent.parent != here or Path(cp).name != "shards_list.json":
                problems.append(f"{rel}: child list {cp} is not in a direct sub-directory")
            cex, csh = audit_list(cp)
            if c.get("number_of_examples", 0) != cex:
                problems.append(f"{rel}: child {cp} recorded with {c.get('number_of_examples', 0)} examples, its tree holds {cex}")
            if c.get("number_of_shards", 0) != csh:
                problems.append(f"{rel}: child {cp} recorded with {c.get('number_of_shards', 0)} shards, its tree holds {csh}")
            ex += cex
            sh += csh
        if doc.get("number_of_examples", 0) != ex:
            problems.append(f"{rel}: list total {doc.get('number_of_examples', 0)} != sum over shards and children {ex}")
        return ex, sh

    for split, sli in info.get("splits", {}).items():
        rel = sli["shard_list_info_file"]["file_path"]
        if rel != f"{split}/shards_list.json":
            problems.append(f"split {split} points to {rel}")
        ex, sh = audit_list(rel)
        if sli.get("number_of_examples", 0) != ex:
            problems.append(f"split {split}: recorded {sli.get('number_of_examples', 0)} examples, true total {ex}")
        if sli.get("number_of_shards", 0) != sh:
            problems.append(f"split {split}: recorded {sli.get('number_of_shards', 0)} shards, true total {sh}")
    on_disk = {str(p.relative_to(root)) for p in root.rglob(f"*{ext}")}
    for fp in sorted(on_disk - set(listed)):
        problems.append(f"shard file {fp} exists on disk but is not listed")
    return problems


def memory_equals_disk(d) -> list[str]:
    from sedpack.io import Dataset
    fresh = Dataset(d.path)
    if fresh._dataset_info != d._dataset_info:  # pylint: disable=protected-access
        return [f"in-memory description differs from a fresh open: {d._dataset_info.splits} vs {fresh._dataset_info.splits}"]
    return []
