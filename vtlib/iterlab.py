"""Helpers for harnesses that drive the real iteration code (dataset_iteration.py, itertools.py).

* build_dataset: a real dataset on a scratch directory written by the real filler (fb or npz), one
  shard per entry of `shard_sizes`, optional per-shard custom metadata.
* RecTF: a recording stand-in for the `tf` module global of sedpack.io.dataset_iteration
  (tf.data.Dataset.from_generator / from_tensor_slices / TFRecordDataset, TensorSpec, device).
* StubRustIter: contract stub of _sedpack_rs.RustIter (yields the examples of the given files in
  order iff entered; can_iterate; finite) decoding with the Python FlatBuffers reader.
* TokenDecoder: stub shard decoder (iterate_shard / process_and_list / iterate_shard_async) that
  returns tokens from a table path -> [tokens]; used where the property does not depend on the format.
"""
from __future__ import annotations

import contextlib
from pathlib import Path

import numpy as np

from . import fillerlab


def build_dataset(root: Path, ft="fb", shard_sizes=(1, 1), metadata=None, split="train", extra_splits=(),
                  compression=""):
    """Write one shard per entry of shard_sizes (examples numbered consecutively from `start`)."""
    d = fillerlab.make_dataset(root, ft=ft, eps=max(max(shard_sizes or [1]), 1), compression=compression)
    from sedpack.io.dataset_filler import DatasetFiller
    v = 0
    plan = [(split, shard_sizes, metadata)] + [(s, sz, md) for (s, sz, md) in extra_splits]
    for sp, sizes, mds in plan:
        for k, sz in enumerate(sizes):
            # one filler session per shard => exactly the requested sizes (short shards anywhere)
            with DatasetFiller(d) as f:
                for _ in range(sz):
                    f.write_example(values=fillerlab.example(v), split=sp,
                                    custom_metadata=(mds[k] if mds else None))
                    v += 1
    return d


class TokenDecoder:
    """Stub for IterateShard* classes: tokens come from `table[str(path)]`."""
    table: dict = {}
    calls: list = []
    fail_paths: set = set()

    def __init__(self, dataset_structure=None, process_record=None, **_kw):
        self.dataset_structure = dataset_structure
        self.process_record = process_record

    def _tokens(self, file_path):
        p = str(file_path)
        type(self).calls.append(p)
        if p in type(self).fail_paths:
            raise OSError(f"vt: unreadable shard {p}")
        return list(type(self).table[p])

    def iterate_shard(self, file_path):
        yield from self._tokens(file_path)

    async def iterate_shard_async(self, file_path):
        for t in self._tokens(file_path):
            yield t

    def process_and_list(self, shard_file):
        f = self.process_record or (lambda x: x)
        return [f(t) for t in self._tokens(shard_file)]


def fresh_token_decoder(table, fail_paths=()):
    return type("TokenDecoderInst", (TokenDecoder,), dict(table=dict(table), calls=[], fail_paths=set(fail_paths)))


class StubRustIter:
    """Contract stub of the native iterator (justified by C15)."""
    instances: list = []
    table: dict | None = None  # optional path -> tokens (else decode fb with the Python reader)

    def __init__(self, files, repeat, threads, compression):
        assert not repeat
        self.files = list(files)
        self.threads = threads
        self.compression = compression
        self.can_iterate = False
        self.entered = 0
        self.exited = 0
        self._it = None
        type(self).instances.append(self)

    @staticmethod
    def supported_compressions():
        return ["", "LZ4", "GZIP", "ZLIB"]

    def __enter__(self):
        self.can_iterate = True
        self.entered += 1
        return self

    def __exit__(self, *a):
        self.can_iterate = False
        self.exited += 1
        self.released = True  # the native object drops its iterator from the static table on exit

    def _gen(self):
        for f in self.files:
            if type(self).table is not None:
                yield from type(self).table[str(f)]
            else:
                from sedpack.io.compress import CompressedFile
                import sedpack.io.flatbuffer.shardfile.Shard as fbapi_Shard
                content = CompressedFile(self.compression).decompress(Path(f).read_bytes())
                shard = fbapi_Shard.Shard.GetRootAs(content, 0)
                for i in range(shard.ExamplesLength()):
                    ex = shard.Examples(i)
                    yield [np.array(ex.Attributes(j).AttributeBytesAsNumpy()) for j in range(ex.AttributesLength())]

    def __iter__(self):
        return self

    def __next__(self):
        if not self.can_iterate:
            raise StopIteration
        if getattr(self, "released", False):
            # the real extension panics: "The static_index was not found among the STATIC_ITERATORS."
            raise RuntimeError("native iterator used after it was released (__exit__)")
        if self._it is None:
            self._it = self._gen()
        return next(self._it)


def fresh_rust_stub(table=None):
    return type("StubRustIterInst", (StubRustIter,), dict(instances=[], table=table))


# ------------------------------------------------------------------------------------------------
class RecDataset:
    """Recording tf.data.Dataset: remembers source and ops; can run generator sources."""

    def __init__(self, rec, source, payload):
        self.rec = rec
        self.source = source
        self.payload = payload
        self.ops: list = []
        rec.datasets.append(self)

    def _op(self, name, *a, **k):
        self.ops.append((name, a, k))
        return self

    def repeat(self, *a, **k):
        return self._op("repeat", *a, **k)

    def shuffle(self, *a, **k):
        return self._op("shuffle", *a, **k)

    def batch(self, *a, **k):
        return self._op("batch", *a, **k)

    def prefetch(self, *a, **k):
        return self._op("prefetch", *a, **k)

    def map(self, *a, **k):
        return self._op("map", *a, **k)

    def interleave(self, *a, **k):
        return self._op("interleave", *a, **k)

    def names(self):
        return [o[0] for o in self.ops]

    def run_generator(self):
        assert self.source == "from_generator"
        return self.payload()


class RecTF:
    """Stand-in for the `tf` global of dataset_iteration (records what as_tfdataset builds)."""

    def __init__(self):
        self.datasets: list = []
        rec = self

        class _Dataset:
            @staticmethod
            def from_generator(gen, output_signature=None, **k):
                return RecDataset(rec, "from_generator", gen)

            @staticmethod
            def from_tensor_slices(x):
                return RecDataset(rec, "from_tensor_slices", list(x))

            @staticmethod
            def list_files(file_pattern, shuffle=None, seed=None, name=None):
                return RecDataset(rec, "list_files", list(file_pattern) if not isinstance(file_pattern, str) else [file_pattern])

        class _Data:
            Dataset = _Dataset

            @staticmethod
            def TFRecordDataset(*a, **k):
                return RecDataset(rec, "TFRecordDataset", (a, k))

        self.data = _Data
        self.float32 = "float32"
        self.string = "string"
        self.int64 = "int64"
        self.float64 = "float64"
        self.float16 = "float16"

    def TensorSpec(self, shape=None, dtype=None):
        return ("TensorSpec", tuple(shape), dtype)

    def device(self, *_a):
        return contextlib.nullcontext()


@contextlib.contextmanager
def patched(module, **names):
    old = {k: getattr(module, k) for k in names}
    try:
        for k, v in names.items():
            setattr(module, k, v)
        yield
    finally:
        for k, v in old.items():
            setattr(module, k, v)
