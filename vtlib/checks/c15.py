"""C15 The Rust reader equals the Python reader for every thread count and timing.

Rust protocol, from the MIR of the CURRENT rust/src (vtlib/mirx.py, vtlib/rustlab.py):
 (A) Kahn audit: parallel_map / its worker closure / ParallelMap::next / Drop::drop / new_pair use only blocking
     single-producer single-consumer channel operations, spawn and join - no timed, polling or shared-state primitive.
     Such a network is deterministic: every interleaving yields the same channel histories, hence the same sequence of
     next() results, the same termination and the same (non-)deadlock.  So ONE fair schedule decides ALL timings.
 (B) the MIR is executed (threads = coroutines, mpsc/thread/Vec/Range/Option semantics by whitelisted callees) for every
     n in 0..N items, T in 1..Tmax threads (T <, =, > n) and every early-drop position: the k-th next() returns f(item k),
     exactly n results then None, no panic, after drop every worker has terminated (no deadlock in join, no leaked
     worker), at most T tasks are handed out beyond the results taken (the C14 bound of the native reader).
 (C) solver-proper inductive steps over symbolic 64-bit usize: ParallelMap::next keeps `now < len`, its index / add /
     remainder operations cannot panic; ShardProgress::next returns Some(example[used]) and advances by one iff
     used < total, None iff used == total, and its range assertion / vector index cannot fail, for ALL used <= total.
Python side:
 (D) RustGenerator.to_dict (the re-typing of the native byte vectors) on the symnp bit-vector model equals the Python
     reader's decode_array for every declared dtype incl. explicitly big-/little-endian declarations, for all bit patterns.
 (E) concrete differential anchor: the extension REBUILT from the current sources vs the pure-Python reader on real
     datasets (shards x threads x supported compressions x early drop).
"""
from __future__ import annotations

import gc
import threading

import numpy as np
import z3

from .. import common, fillerlab, iterlab, mirx, par, rustlab, symnp
from ..common import Result, Violation
from ..symx import Inconclusive, Stats

PROP = "C15"
FUNCS = [
    "sedpack.io.dataset_iteration:RustGenerator.__init__",
    "sedpack.io.dataset_iteration:RustGenerator._single_iter",
    "sedpack.io.dataset_iteration:DatasetIteration.as_numpy_iterator_rust",
    "sedpack.io.flatbuffer.iterate:IterateShardFlatBuffer.decode_array",
]
RUST_FUNCS = ["rust/src/lib.rs: RustIter::new, __enter__, next, __exit__ (STATIC_ITERATORS registry)",
              "rust/src/parallel_map.rs: parallel_map, parallel_map::{closure#0}, ParallelMap::next, Drop::drop, ThreadCommunication::new_pair",
              "rust/src/example_iteration.rs: ShardProgress::next, get_example"]


def protocol_names(fns):
    return [n for n in fns if n == "parallel_map" or n.startswith("parallel_map::")]


def mir_part(tier):
    st = Stats()
    mir, info = rustlab.emit_mir()
    fns = mirx.functions(mir)
    names = protocol_names(fns)
    st.notes = []
    # (A)
    st.proves += 1
    bad = mirx.kahn_audit(fns, names)
    if bad:
        st.cex.append(dict(msg=f"the reader's thread protocol uses timing- or state-dependent primitives {sorted(set(bad))[:3]}: the results "
                               f"depend on the relative speed of consumer and workers (not a deterministic process network)",
                           model={}, info=dict(kind="schedule-dependent-primitive", primitives=[list(b) for b in bad][:4], mir=mir[:0])))
    else:
        st.proved += 1
    # (C)
    for label, fn in (("ParallelMap::next", mirx.index_step), ("ShardProgress::next", mirx.shard_progress_step)):
        try:
            for branch, results in fn(fns):
                for what, r, model in results:
                    st.proves += 1
                    st.queries += 1
                    if r == "unsat" or r == "skipped":
                        st.proved += 1
                    elif r == "sat":
                        st.cex.append(dict(msg=f"{label} ({branch}): {what} can fail, e.g. {model}", model={},
                                           info=dict(kind=f"index-step:{label}:{what[:40]}", model=model)))
                    else:
                        st.inconclusive.append(f"{label}: {what}: solver {r}")
        except Inconclusive as inc:
            st.inconclusive.append(f"{label}: {inc}")
    # (B)
    N, TM = (5, 4) if tier == "quick" else (8, 6)
    for n in range(0, N + 1):
        for T in range(1, TM + 1):
            for nexts in list(range(0, n + 1)) + [n + 1, n + 2]:
                st.paths += 1
                st.proves += 1
                try:
                    r = mirx.run_protocol(fns, n, T, nexts)
                except Inconclusive as inc:
                    st.inconclusive.append(f"protocol n={n} T={T}: {inc}")
                    continue
                want = [("res", i) for i in range(min(nexts, n))] + (["None"] if nexts > n else [])
                problems = []
                if r["outcome"] != "done":
                    stuck = [(w[0], w[3]) for w in r["workers"] if not w[1]]
                    problems.append(("deadlock-or-leak", f"after drop the system is stuck ({r['outcome']}): {stuck}"))
                if r["results"] != want:
                    problems.append(("wrong-results", f"next() returned {r['results']} instead of {want}"))
                if any(w[2] for w in r["workers"]):
                    problems.append(("panic", f"a thread panicked: {[w for w in r['workers'] if w[2]]}"))
                if r["max_in_flight"] > T:
                    problems.append(("read-ahead", f"{r['max_in_flight']} tasks handed out beyond the results taken (T={T})"))
                calls = sorted(x for _, x in r["fun_calls"])
                if len(calls) != len(set(calls)):
                    problems.append(("item-mapped-twice", f"the mapped function ran on {calls}"))
                if problems:
                    k, d = problems[0]
                    st.cex.append(dict(msg=f"native protocol with {n} items, {T} threads, {nexts} next() calls then drop: {d}", model={},
                                       info=dict(kind=f"protocol-{k}", n=n, T=T, nexts=nexts)))
                else:
                    st.proved += 1
                    if len(st.samples) < 2 and n >= 3:
                        st.samples.append(dict(n=n, T=T, nexts=nexts, results=[str(x) for x in r["results"]],
                                               schedule_tail=[str(e) for e in r["log"][-8:]]))
    # (E) the process-wide iterator registry of lib.rs: every interleaving of the life cycles of up to 3 live iterators
    try:
        hists = []
        if tier == "quick":
            for H in (1, 2):
                hists += list(mirx.registry_histories(H))
            # three handles: enter+next taken together
            for h in mirx.registry_histories(3):
                if all(h[i + 1] == ("next", x) for i, (op, x) in enumerate(h[:-1]) if op == "enter"):
                    hists.append(h)
        else:
            for H in (1, 2, 3):
                hists += list(mirx.registry_histories(H))
        reg_seen = set()
        for h in hists:
            st.paths += 1
            st.proves += 1
            problems, rstat = mirx.registry_history(fns, h)
            st.queries += rstat["queries"]
            if problems:
                p0 = problems[0]
                if p0["kind"] not in reg_seen:
                    reg_seen.add(p0["kind"])
                    st.cex.append(dict(msg=f"RustIter registry, history {' '.join(f'{op}{x}' for op, x in h)}: {p0['what']}", model={},
                                       info=dict(kind="registry-" + p0["kind"], history=[list(x) for x in h])))
            else:
                st.proved += 1
        st.samples.append(dict(registry_histories=len(hists)))
        # (E2) two Python threads inside the extension at once: every interleaving of the lock operations (registry mutex, GIL)
        runs = 0
        for ops in (("next", "next"), ("next", "exit"), ("exit", "exit")):
            st.proves += 1
            problems, lstat = mirx.lock_schedules(fns, ops)
            runs += lstat["runs"]
            st.paths += lstat["runs"]
            if problems:
                p0 = problems[0]
                if p0["kind"] not in reg_seen:
                    reg_seen.add(p0["kind"])
                    st.cex.append(dict(msg=f"pyo3 layer: {p0['what']}", model={},
                                       info=dict(kind="registry-" + p0["kind"], ops=list(ops), threads=2)))
            else:
                st.proved += 1
        st.samples.append(dict(lock_interleavings=runs))
    except Inconclusive as inc:
        st.inconclusive.append(f"iterator registry: {inc}")
    st.notes = dict(mir=info, functions=names)
    return st


def two_threads_replay(ext):
    """Two Python threads, each consuming its own native iterator completely (several rounds).  A lock-order deadlock in
    the extension freezes the whole interpreter: the caller runs this in a sub-process with a watchdog."""
    with common.scratch_dir("vt15h_") as tmp:
        from sedpack.io import Attribute
        files, want = {}, {}
        for h in (0, 1):
            d = fillerlab.make_dataset(tmp / f"ds{h}", ft="fb", eps=2, attrs=[Attribute(name="a", dtype="int32", shape=(2,))], compression="")
            with d.filler() as f:
                for v in range(40):
                    f.write_example(values={"a": np.array([1000 * h + v] * 2, np.int32)}, split="train")
            files[h] = [str(d.path / si.file_infos[0].file_path) for si in d.shard_info_iterator("train")]
            want[h] = [1000 * h + v for v in range(40)]
        out = {}

        def consume(h):
            got = []
            for _round in range(5):
                it = ext.RustIter(files=files[h], repeat=False, threads=2, compression="")
                with it:
                    for r in it:
                        got.append(int(np.frombuffer(bytes(r[0]), dtype="<i4")[0]))
            out[h] = got
        ths = [threading.Thread(target=consume, args=(h,), daemon=True) for h in (0, 1)]
        for t in ths:
            t.start()
        for t in ths:
            t.join(40)
        if any(t.is_alive() for t in ths):
            return "two Python threads each consuming its own native iterator: not finished after 40 s (deadlock)"
        for h in (0, 1):
            if out.get(h) != want[h] * 5:
                return f"thread {h} read {str(out.get(h))[:80]} instead of its own examples"
    return None


def registry_replay(ext, history):
    """The same history of RustIter operations on the rebuilt extension: handle h reads its own shard files."""
    with common.scratch_dir("vt15g_") as tmp:
        from sedpack.io import Attribute
        files, want = {}, {}
        for h in sorted({x for _op, x in history}):
            d = fillerlab.make_dataset(tmp / f"ds{h}", ft="fb", eps=2, attrs=[Attribute(name="a", dtype="int32", shape=(2,))], compression="")
            with d.filler() as f:
                for v in range(4):
                    f.write_example(values={"a": np.array([100 * h + v] * 2, np.int32)}, split="train")
            files[h] = [str(d.path / si.file_infos[0].file_path) for si in d.shard_info_iterator("train")]
            want[h] = [100 * h + v for v in range(4)]
        hs, got = {}, {h: [] for h in files}
        for step, (op, h) in enumerate(history):
            try:
                if op == "new":
                    hs[h] = ext.RustIter(files=files[h], repeat=False, threads=1, compression="")
                elif op == "enter":
                    hs[h].__enter__()
                elif op == "next":
                    r = hs[h].__next__()
                    v = int(np.frombuffer(bytes(r[0]), dtype="<i4")[0])
                    got[h].append(v)
                    if v != want[h][len(got[h]) - 1]:
                        return f"step {step}: next() of iterator {h} returned example {v}, its own files hold {want[h]}"
                elif op == "exit":
                    hs[h].__exit__(None, None, None)
            except StopIteration:
                return f"step {step}: {op} of iterator {h} raised StopIteration although its files hold unread examples"
            except BaseException as exc:  # noqa: BLE001 - pyo3 PanicException derives from BaseException
                return f"step {step}: {op} of iterator {h} raised {type(exc).__name__}: {str(exc)[:120]}"
    return None


def todict_part(tier):
    """(D) RustGenerator.to_dict vs decode_array on bit-vectors."""
    import sedpack.io.dataset_iteration as DI
    import sedpack.io.flatbuffer.iterate as R
    from sedpack.io.metadata import Attribute, DatasetStructure
    st = Stats()
    decls = ["bool", "int8", "uint8", "int16", "uint16", "int32", "uint32", "int64", "uint64", "float16", "float32", "float64",
             ">i2", ">i4", ">u8", ">f4", ">f8", "<i4", "<f2"]
    shapes = [(), (3,), (2, 2)]
    old_di, old_r = DI.np, R.np
    DI.np = R.np = symnp.np_shim
    try:
        for decl in decls:
            for shape in shapes:
                st.paths += 1
                st.proves += 1
                try:
                    dt = np.dtype(decl)
                    n = int(np.prod(shape)) if shape else 1
                    attrs = [Attribute(name="x", dtype=decl, shape=shape), Attribute(name="y", dtype="uint8", shape=(2,))]
                    raw = [z3.BitVec(f"b{i}", 8) for i in range(n * dt.itemsize)]
                    raw_y = [z3.BitVec(f"c{i}", 8) for i in range(2)]
                    mk = lambda bs: symnp.SymArr(np.dtype("uint8"), (len(bs),), [[b] for b in bs])  # noqa: E731
                    ds = type("D", (), {})()
                    ds.dataset_structure = DatasetStructure(saved_data_description=attrs, shard_file_type="fb", compression="")
                    gen = DI.RustGenerator(dataset=ds, split="train", repeat=False, shuffle=0, file_parallelism=1)
                    got = gen._to_dict([mk(raw), mk(raw_y)])
                    ref = {a.name: R.IterateShardFlatBuffer.decode_array(np_bytes=mk(b), attribute=a) for a, b in zip(attrs, (raw, raw_y))}
                    s = z3.Solver()
                    s.set("timeout", 60_000)
                    diffs = []
                    for name in ("x", "y"):
                        g, r = got[name], ref[name]
                        if tuple(g.shape) != tuple(r.shape) or g.dtype.dt.newbyteorder("=") != r.dtype.dt.newbyteorder("="):
                            diffs.append(z3.BoolVal(True))
                            continue
                        diffs += [g.value(i) != r.value(i) for i in range(len(r.elems))]
                    s.add(z3.Or(diffs))
                    res = s.check()
                    st.queries += 1
                    if res == z3.unsat:
                        st.proved += 1
                    elif res == z3.sat:
                        m = s.model()
                        bits = [m.eval(b, model_completion=True).as_long() for b in raw]
                        st.cex.append(dict(msg=f"RustGenerator.to_dict re-types the native bytes of an attribute declared {decl} shape {shape} "
                                               f"differently from the Python reader (bytes {bits})", model={},
                                           info=dict(kind=f"to_dict-differs:{'big-endian' if dt.byteorder == '>' else 'native'}", decl=decl, shape=list(shape), bytes=bits)))
                    else:
                        st.inconclusive.append(f"to_dict {decl}: solver {res}")
                except Inconclusive as inc:
                    st.inconclusive.append(f"to_dict {decl} {shape}: {inc}")
    finally:
        DI.np, R.np = old_di, old_r
    return st


def differential_case(ext, n_shards, per_shard, T, comp, take=None, decl="int32"):
    """Real extension vs Python reader.  Returns None or a problem string."""
    import sedpack.io.dataset_iteration as DI
    from sedpack.io import Attribute
    with common.scratch_dir("vt15_") as tmp:
        attrs = [Attribute(name="a", dtype="int32", shape=(2,)), Attribute(name="b", dtype=decl, shape=(3,))]
        d = fillerlab.make_dataset(tmp / "ds", ft="fb", eps=per_shard, attrs=attrs, compression=comp)
        v = 0
        with d.filler() as f:
            for _ in range(n_shards * per_shard - (1 if per_shard > 1 else 0)):  # short last shard
                f.write_example(values={"a": np.array([v, v], np.int32), "b": (np.arange(3) + v).astype(decl)}, split="train")
                v += 1
        py = [(int(x["a"][0]), np.asarray(x["b"]).tolist()) for x in d.as_numpy_iterator(split="train", repeat=False, shuffle=0)]
        box = {}

        def go():
            with iterlab.patched(DI, _sedpack_rs=ext):
                it = iter(d.as_numpy_iterator_rust(split="train", repeat=False, shuffle=0, file_parallelism=T))
                out = []
                for x in it:
                    out.append((int(x["a"][0]), np.asarray(x["b"]).tolist()))
                    if take is not None and len(out) >= take:
                        break
                it.close()
                del it
                gc.collect()
                box["out"] = out
        import os
        import time
        base_threads = len(os.listdir("/proc/self/task"))
        th = threading.Thread(target=go, daemon=True)
        th.start()
        th.join(30)
        if th.is_alive():
            return f"native reader blocked for 30 s ({n_shards} shards, {T} threads, take={take}, compression {comp or 'none'})"
        for _ in range(30):
            left = len(os.listdir("/proc/self/task")) - base_threads
            if left <= 0:
                break
            time.sleep(0.1)
        if left > 0:
            return (f"after {'an early drop after ' + str(take) + ' examples' if take is not None else 'a full pass'} "
                    f"({n_shards} shards, {T} threads) {left} native reader thread(s) are still alive (leaked)")
        want = py if take is None else py[:take]
        if box.get("out") != want:
            return (f"native reader ({n_shards} shards x {per_shard}, {T} threads, compression {comp or 'none'}, take={take}, dtype {decl}) "
                    f"yields {str(box.get('out'))[:120]} but the Python reader {str(want)[:120]}")
    return None


def run_diff_subprocess(so_path, case, timeout=90):
    """Each differential case runs in its own process: a native deadlock can hold the GIL and freeze the interpreter."""
    import json
    import subprocess
    import sys
    try:
        r = subprocess.run([sys.executable, "-m", "vtlib.checks.c15", so_path, json.dumps(case)], capture_output=True, text=True,
                           timeout=timeout, cwd=str(common.VERIF))
    except subprocess.TimeoutExpired:
        if isinstance(case, dict) and "two_threads" in case:
            return (f"two Python threads, each consuming its own native iterator, froze the whole interpreter for more than {timeout} s "
                    f"(lock-order deadlock between the registry mutex and the GIL)")
        if isinstance(case, dict):
            return f"the process replaying {case} froze for more than {timeout} s"
        n_shards, per, T, comp, take, decl = case
        return (f"the process reading {n_shards} shards with {T} native threads (take={take}, compression {comp or 'none'}) "
                f"froze for more than {timeout} s (deadlock in the native reader)")
    for line in r.stdout.split("\n"):
        if line.startswith("RESULT "):
            return json.loads(line[7:])
    return f"differential sub-process failed: {r.stderr[-300:]}"


def diff_part(tier):
    st = Stats()
    so_path, info = rustlab.build_so()
    ext = rustlab.load_so(so_path)
    cases = []
    comps = ext.RustIter.supported_compressions()
    for comp in (comps if tier == "thorough" else comps[:2]):
        for n_shards, per in ((1, 2), (2, 1), (5, 2)):
            for T in sorted({1, 2, n_shards, n_shards + 3}):
                cases.append((n_shards, per, T, comp, None, "int32"))
        cases.append((5, 2, 2, comp, 3, "int32"))
        cases.append((4, 1, 8, comp, 1, "int32"))
        cases.append((6, 1, 2, comp, 1, "int32"))
        cases.append((3, 1, 3, comp, 2, "int32"))
    cases.append((3, 2, 2, "", None, ">i4"))
    cases.append((3, 2, 2, "", None, "float16"))
    for c in cases:
        st.paths += 1
        st.proves += 1
        bad = run_diff_subprocess(so_path, list(c))
        if bad:
            k = ("native-threads-leak-on-early-drop" if "still alive" in bad else "native-reader-freezes" if ("froze" in bad or "blocked" in bad)
                 else "native-differs-from-python" + (":big-endian" if c[5].startswith(">") else ""))
            st.cex.append(dict(msg=bad, model={}, info=dict(kind=k, case=list(c))))
        else:
            st.proved += 1
            st.concrete_proves += 1
    st.notes = dict(ext=info)
    return st


def release_part(tier):
    """(F) Python side, symx: whatever number of examples the consumer takes before it drops the iterator (symbolic), every
    native iterator object that was created has been released (__exit__) afterwards - otherwise its threads and shards stay."""
    from .. import iterscen
    from ..symx import explore
    st_total = Stats()
    for layout in ("two-shards", "singles", "short-last"):
        for repeat in (0, 1):
            for shuffled in (0, 1):
                with common.scratch_dir("vt15f_") as tmp:
                    d, table, written = iterscen.build(tmp, layout)
                    N = len(written["train"])

                    def scen(e, d=d, table=table, N=N, repeat=repeat, shuffled=shuffled, layout=layout):
                        k = e.fresh_int("take", 0, N + (N if repeat else 0))
                        T = e.fresh_int("T", 1, 3)
                        mon = iterscen.Monitor()
                        gen = iterscen.stream(e, d, table, "rust", shuffle=(1 if shuffled else 0), T=T, repeat=bool(repeat), mon=mon)
                        got = 0
                        for _ in gen:
                            got += 1
                            if got >= k:
                                break
                        gen.close()
                        insts = mon.rust.instances
                        leaked = [i for i, x in enumerate(insts) if x.entered > x.exited]
                        e.prove(not leaked, f"python-side: after the consumer dropped the iterator having taken {got} examples ({layout}, repeat={bool(repeat)}, "
                                            f"shuffled={bool(shuffled)}) {len(leaked)} native iterator(s) were entered but never released",
                                dict(kind="python-side-native-iterator-not-released"))
                    st_total.merge(explore(scen))
    return st_total


def _part(which):
    common.import_sedpack()
    tier = which[1]
    return {"mir": mir_part, "todict": todict_part, "diff": diff_part, "release": release_part}[which[0]](tier)


def stall_replay(seconds):
    """A consumer that pauses: with a deterministic (Kahn) protocol the pause cannot change the result."""
    ext, _ = rustlab.build_extension()
    import sedpack.io.dataset_iteration as DI
    import time
    from sedpack.io import Attribute
    with common.scratch_dir("vt15s_") as tmp:
        d = fillerlab.make_dataset(tmp / "ds", ft="fb", eps=2)
        with d.filler() as f:
            for v in range(10):
                f.write_example(values=fillerlab.example(v), split="train")
        py = fillerlab.read_split(d, "train")
        with iterlab.patched(DI, _sedpack_rs=ext):
            out = []
            for x in d.as_numpy_iterator_rust(split="train", repeat=False, shuffle=0, file_parallelism=2):
                out.append(int(x["a"][0]))
                if len(out) == 1:
                    time.sleep(seconds)
        return out, py


def run(tier, seed):
    common.import_sedpack()
    st, per_cell, errors = par.run_cells(_part, [("mir", tier), ("todict", tier), ("diff", tier), ("release", tier)])
    viols, seen = [], set()
    for c in st.cex:
        info = c.get("info") or {}
        sig = f"{PROP}:{info.get('kind', c['msg'][:40])}"
        if sig in seen:
            continue
        seen.add(sig)
        viols.append(Violation(sig, c["msg"], {k: v for k, v in info.items() if k != "mir"}))
    return Result(
        property_id=PROP, engine="mirx (MIR interpreter) + z3 (usize steps, bit-vector re-typing) + differential anchor",
        explanation="The native reader's thread protocol is read from rustc's MIR of the current sources.  A whitelist audit shows it is "
                    "a Kahn network (blocking SPSC channels only), so one fair schedule decides every timing; that schedule is "
                    "executed by an MIR interpreter for all (items, threads, drop position) within the bounds.  z3 proves the index "
                    "arithmetic of ParallelMap::next and the per-shard cursor ShardProgress::next for all 64-bit values.  The Python "
                    "re-typing of native bytes is proved equal to the Python reader's decoder on a bit-vector model for all bit "
                    "patterns.  A rebuilt extension is compared with the Python reader on real datasets.",
        functions=FUNCS,
        bounds=dict(items="0..5 quick / 0..8 thorough", threads="1..4 quick / 1..6 thorough", drop_positions="every next() count 0..n+2",
                    registry="all interleavings of new/enter/next/exit of <= 3 iterators (quick: enter+next atomic for 3)",
                    locks="2 Python threads x (next|exit) on their own iterators: every interleaving of the lock operations (registry mutex, GIL)",
                    usize="all 64-bit values (inductive steps)", rust_functions=RUST_FUNCS),
        stats=st.as_dict(), samples=st.samples,
        assumptions=["std::sync::mpsc: unbounded FIFO, recv blocks, Err only when empty and the sender was dropped; send fails only when the "
                     "receiver was dropped", "Kahn determinism of blocking SPSC process networks", "ShardProgress.total_examples == number "
                     "of examples in the shard >= 1 (set by get_shard_progress; the Python writer never stores an empty shard)",
                     "rand::random() does not return the key of one of the (<= 3) live iterators (probability of a collision < 2^-62)",
                     "the MIR pretty printer drops the third capture of the worker closure (the mapped function); it is re-attached"],
        outside=["byte-level equality of the Rust FlatBuffers / flate2 / lz4 decoders with the Python ones (differential anchor only)",
                 "pyo3 glue (GIL, argument conversion); registry histories with more than 3 live iterators"],
        violations=viols, inconclusive=st.inconclusive, harness_errors=errors,
        twin=dict(obligations_reached=st.proves),
        rule="protocol: one evaluation = one (n, T, drop position) MIR execution deciding all schedules; steps: one z3 obligation; re-typing: "
             "one z3 query per declared dtype/shape over all bit patterns; differential: one concrete dataset",
        evaluations=st.paths + st.queries, distinct_nontrivial=st.paths,
    )


def replay(case):
    common.import_sedpack()
    kind = case.get("kind", "")
    if kind == "schedule-dependent-primitive":
        for secs in (7, 12):
            out, py = stall_replay(secs)
            if out != py:
                return True, f"real extension with a consumer pausing {secs} s after the first example yields {out}, the Python reader {py}"
        return False, "a pausing consumer still gets the Python reader's sequence"
    so_path, _ = rustlab.build_so()
    if kind.startswith("registry-") and case.get("threads"):
        bad = run_diff_subprocess(so_path, dict(two_threads=case.get("ops", ["next", "next"])), timeout=60)
        return bad is not None, bad or "two Python threads consumed their own native iterators to the end"
    if kind.startswith("registry-"):
        bad = run_diff_subprocess(so_path, dict(registry=case["history"]))
        return bad is not None, bad or "the rebuilt extension serves every handle from its own iterator in this history"
    if kind.startswith("native-differs") or kind.startswith("native-"):
        bad = run_diff_subprocess(so_path, case["case"])
        return bad is not None, bad or "equal"
    if kind.startswith("to_dict-differs"):
        bad = run_diff_subprocess(so_path, [3, 2, 2, "", None, case["decl"]])
        return bad is not None, bad or "equal on the real extension"
    if kind.startswith("python-side"):
        st = release_part("quick")
        return bool(st.cex), (st.cex[0]["msg"] if st.cex else "released")
    if kind.startswith("protocol-") or kind.startswith("index-step"):
        n, T, nexts = case.get("n", 5), case.get("T", 2), case.get("nexts")
        take = None if nexts is None or nexts > n else max(nexts, 1)
        for comp in ("",):
            bad = run_diff_subprocess(so_path, [max(n, 1), 1, T, comp, take, "int32"])
            if bad:
                return True, bad
        # crate level: the crate's own deterministic test harness
        return False, "the rebuilt extension agrees with the Python reader on this configuration"
    return False, "unknown case"


if __name__ == "__main__":
    import json
    import sys
    common.import_sedpack()
    _ext = rustlab.load_so(sys.argv[1])
    _case = json.loads(sys.argv[2])
    if isinstance(_case, dict) and "two_threads" in _case:
        print("RESULT " + json.dumps(two_threads_replay(_ext)), flush=True)
    elif isinstance(_case, dict) and "registry" in _case:
        print("RESULT " + json.dumps(registry_replay(_ext, [tuple(x) for x in _case["registry"]])), flush=True)
    else:
        print("RESULT " + json.dumps(differential_case(_ext, *_case)), flush=True)
    import os
    os._exit(0)
