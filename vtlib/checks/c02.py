"""C02 Exactly-once delivery: one pass yields precisely the split's examples (see vtlib/iterscen.py)."""
from __future__ import annotations

from collections import Counter

from .. import common, iterscen, par
from ..common import Result, Violation
from ..symx import CexFound, ConcreteEngine, explore

PROP = "C02"
FUNCS = [
    "sedpack.io.itertools.itertools:shuffle_buffer",
    "sedpack.io.itertools.itertools:round_robin",
    "sedpack.io.itertools.itertools:round_robin_async",
    "sedpack.io.dataset_iteration:DatasetIteration.as_numpy_common",
    "sedpack.io.dataset_iteration:DatasetIteration.as_numpy_iterator",
    "sedpack.io.dataset_iteration:DatasetIteration.as_numpy_iterator_concurrent",
    "sedpack.io.dataset_iteration:DatasetIteration.as_numpy_iterator_async",
    "sedpack.io.dataset_iteration:DatasetIteration.as_numpy_iterator_rust",
    "sedpack.io.dataset_iteration:RustGenerator._single_iter",
    "sedpack.io.dataset_iteration:RustGenerator.__call__",
    "sedpack.io.dataset_iteration:DatasetIteration.shard_paths_dataset",
    "sedpack.io.dataset_base:DatasetBase.shard_info_iterator",
    "sedpack.io.dataset_base:DatasetBase._shard_info_iterator",
]
IFACES = ["numpy", "concurrent", "async", "rust", "tfdataset"]


def scenario(e, cfg, built=None):
    common.import_sedpack()
    own = built is None
    ctx = common.scratch_dir("vt02_") if own else None
    tmp = ctx.__enter__() if own else None
    try:
        if own:
            built = iterscen.build(tmp, cfg["layout"])
        d, table, written = built
        iface = cfg["iface"]
        split = cfg.get("split", "train")
        want = sorted(v for _, v in written[split])
        total = len(want)
        S = sum(1 for _ in d.shard_info_iterator(split))
        use_shuffle = cfg["shuffled"]
        shuffle = e.fresh_int("shuffle", 1, total + 1) if use_shuffle else 0
        T = e.fresh_int("T", 1, S + 1)
        mon = iterscen.Monitor()
        calls = []

        def process_record(x):
            calls.append(x)
            return ("P", x)

        pr = process_record if iface != "tfdataset" else None
        try:
            got = list(iterscen.stream(e, d, table, iface, split=split, shuffle=shuffle, T=T, repeat=False,
                                       process_record=pr, mon=mon))
        except CexFound:
            raise
        except Exception as exc:  # noqa: BLE001
            e.fail(f"{iface}/{cfg['layout']}/{split} shuffled={use_shuffle}: pass raised {type(exc).__name__}: {str(exc)[:100]}",
                   dict(kind=f"{iface}-pass-raised-{type(exc).__name__}"))
        if pr is not None:
            e.prove(all(isinstance(g, tuple) and g[0] == "P" for g in got),
                    f"{iface}: an element reached the consumer without the per-example transformation", dict(kind=f"{iface}-transformation-skipped"))
            e.prove(len(calls) == len(got) and Counter(calls) == Counter(g[1] for g in got if isinstance(g, tuple)),
                    f"{iface}: transformation applied {len(calls)} times for {len(got)} yielded elements",
                    dict(kind=f"{iface}-transformation-not-once"))
            got = [g[1] if isinstance(g, tuple) else g for g in got]
        if iface == "tfdataset" and getattr(mon, "tf_dataset", None) is not None and mon.tf_dataset.source == "from_generator" \
                and (not use_shuffle or cfg.get("second_pass_shuffled")):
            # the SAME tf.data.Dataset object iterated again (a second epoch of model.fit): tf calls the generator function anew
            import sedpack.io.dataset_iteration as DI
            import sedpack.io.itertools.itertools as IT
            restore = iterscen.patch_randomness(e, IT)
            patches = dict(IterateShardFlatBuffer=iterscen.make_decoder(table, iterscen.Monitor()), ThreadPoolExecutor=iterscen.StubExecutor,
                           LazyPool=iterscen.make_lazy_pool(e))
            old = {k: getattr(DI, k) for k in patches}
            for k, v in patches.items():
                setattr(DI, k, v)
            try:
                second = list(mon.tf_dataset.run_generator())
            except Exception as exc:  # noqa: BLE001
                second = f"raised {type(exc).__name__}"
            finally:
                for k, v in old.items():
                    setattr(DI, k, v)
                restore()
            e.prove(isinstance(second, list) and sorted(second) == want,
                    f"{iface}/{cfg['layout']}/{split} shuffled={use_shuffle}: a second pass over the SAME returned dataset object yields "
                    f"{second if not isinstance(second, list) else sorted(second)} instead of exactly {want}",
                    dict(kind="tfdataset-second-pass-differs"))
        e.prove(sorted(got) == want,
                f"{iface}/{cfg['layout']}/{split} shuffled={use_shuffle}: yielded {sorted(got)} instead of exactly {want} "
                f"(missing {sorted((Counter(want) - Counter(got)).elements())}, extra {sorted((Counter(got) - Counter(want)).elements())})",
                dict(kind=f"{iface}-{'shuffled' if use_shuffle else 'unshuffled'}-multiset-differs"))
        return dict(iface=iface, layout=cfg["layout"], n=len(got))
    finally:
        if own:
            ctx.__exit__(None, None, None)


def _cell(cell):
    common.import_sedpack()
    with common.scratch_dir("vt02_") as tmp:
        built = iterscen.build(tmp, cell["layout"])
        return explore(lambda e: scenario(e, cell, built))


def cells(tier):
    out = []
    small = ["one-shard", "two-shards", "short-last", "singles", "nested", "multi", "three-splits", "grown"]
    for iface in IFACES:
        for layout in small + (["four-shards", "five-shards"] if tier == "thorough" else []):
            for shuffled in (False, True):
                if shuffled and layout == "grown" and iface != "numpy":
                    continue  # what the layout adds (state kept from an earlier pass) does not depend on the shuffling path
                if shuffled and tier == "quick" and iface in ("concurrent", "tfdataset") and layout not in ("one-shard", "two-shards", "singles"):
                    continue  # round robin x lazy-pool order over >= 3 multi-example shards: thorough tier (10k paths per cell)
                if shuffled and tier == "quick" and iface == "tfdataset" and layout == "singles":
                    continue
                if shuffled and tier == "quick" and iface == "async" and layout in ("nested", "multi"):
                    continue
                if shuffled and layout in ("four-shards", "five-shards") and iface in ("concurrent", "tfdataset", "async"):
                    continue  # measured: round robin x pool order over >= 4 shards exceeds the 900 s cell budget
                if shuffled and layout == "five-shards" and iface == "numpy":
                    continue  # example-level shuffle buffer over 9 examples: > 900 s
                if shuffled and layout == "nested" and iface in ("concurrent", "tfdataset", "async"):
                    continue  # 4 shards: as above
                splits = ["train"] + (["test"] if layout in ("short-last", "nested", "three-splits", "multi") and not shuffled else [])
                if layout == "three-splits" and not shuffled:
                    splits.append("holdout")
                for sp in splits:
                    out.append(dict(iface=iface, layout=layout, shuffled=shuffled, split=sp))
    return out


def collect(st, prop, cs):
    viols, seen = [], set()
    for c in st.cex:
        kind = (c.get("info") or {}).get("kind", c["msg"][:40])
        sig = f"{prop}:{kind}"
        if sig in seen:
            continue
        seen.add(sig)
        head = c["msg"].split(":")[0]
        parts = head.split("/")
        cfg = None
        if len(parts) >= 3:
            shuffled = "shuffled=True" in c["msg"]
            cfg = dict(iface=parts[0], layout=parts[1], split=parts[2].split(" ")[0], shuffled=shuffled)
        if cfg is None:
            cfg = dict(iface=head.strip(), layout="short-last", split="train", shuffled=any(k.startswith("shuffle") for k in c["model"]))
        viols.append(Violation(sig, f"{c['msg']} (model {c['model']})", dict(model=c["model"], cfg=cfg)))
    return viols


def run(tier, seed):
    common.import_sedpack()
    cs = cells(tier)
    st, per_cell, errors = par.run_cells(_cell, cs)
    viols = collect(st, PROP, cs)
    anchor = None
    if tier == "thorough":
        pr, err = iterscen.real_tf_anchor_subprocess()
        anchor = dict(problems=pr[:3], error=err)
        pr = [p for p in pr if "instead of exactly" in p]
        if pr:
            viols.append(Violation("C02:real-tf-anchor", "real TensorFlow run: " + pr[0], dict(real_tf=True)))
        if err:
            errors.append(err)
    return Result(
        property_id=PROP, engine="symx",
        explanation="Bounded symbolic execution with z3 of the real iteration code (shard-info recursion, shard selection, shard- and "
                    "example-level shuffle buffers, round robin, every as_numpy_iterator* generator, RustGenerator) over real shard-"
                    "list trees with token decoders: every random state is a fresh symbolic integer (all index sequences), shuffle "
                    "and file_parallelism are symbolic, the lazy pool's completion order is a solver-driven choice; on every path "
                    "the yielded multiset must equal the split's examples and the transformation must be applied exactly once.",
        functions=FUNCS,
        bounds=dict(layouts=sorted({c["layout"] for c in cs}), max_examples=9, shuffle="1..total+1 or 0", T="1..shards+1",
                    lazy_pool_window=2, cells=len(cs)),
        stats=st.as_dict(), samples=st.samples,
        assumptions=["LazyPool contract (C13): each input mapped exactly once, arbitrary order within the in-flight window",
                     "ThreadPoolExecutor.map contract: results in submission order", "RustIter contract (C15)",
                     "decoders return the shard's examples (format fidelity is C01)"],
        outside=["tf.data runtime (as_tfdataset tfrec branch, tf shuffle/batch)", "real thread timing (covered by the contracts + C13/C15)"],
        violations=viols, inconclusive=st.inconclusive, harness_errors=errors, extra=dict(real_tf_anchor=anchor),
        twin=dict(obligations_reached=st.proves),
        rule="one evaluation = one explored path = one class of (random index sequence, shuffle, T, completion order)",
        evaluations=st.paths, distinct_nontrivial=st.paths - st.aborted,
    )


def replay(case):
    """Concrete replay: same scenario with the model's values (token decoders stay, randomness is fixed by the model);
    additionally the real decoders/threads are exercised on the same layout with the model's shuffle/T."""
    if case.get("real_tf"):
        pr, err = iterscen.real_tf_anchor_subprocess()
        pr = [p for p in pr if "instead of exactly" in p]
        return bool(pr), str(pr[:2] or err)
    common.import_sedpack()
    cfg = case["cfg"]
    try:
        scenario(ConcreteEngine(case["model"]), cfg)
    except CexFound as c:
        return True, f"reproduced with concrete values {case['model']}: {c.msg}"
    # second chance: real decoders and real threads
    from .. import fillerlab
    with common.scratch_dir("vt02r_") as tmp:
        d, table, written = iterscen.build(tmp, cfg["layout"])
        want = sorted(v for _, v in written[cfg["split"]])
        sh = int(case["model"].get("shuffle", 0)) if cfg["shuffled"] else 0
        T = int(case["model"].get("T", 1))
        for _ in range(5):
            kw = dict(split=cfg["split"], repeat=False, shuffle=sh)
            if cfg["iface"] == "numpy":
                got = [int(x["a"][0]) for x in d.as_numpy_iterator(**kw)]
            elif cfg["iface"] in ("concurrent", "tfdataset"):
                got = [int(x["a"][0]) for x in d.as_numpy_iterator_concurrent(file_parallelism=T, **kw)]
            elif cfg["iface"] == "rust":
                got = [int(x["a"][0]) for x in d.as_numpy_iterator_rust(file_parallelism=T, **kw)]
            else:
                import asyncio

                async def run():
                    return [int(x["a"][0]) async for x in d.as_numpy_iterator_async(file_parallelism=T, **kw)]
                got = asyncio.run(run())
            if sorted(got) != want:
                return True, f"reproduced with the real decoders: got {sorted(got)} want {want}"
    return False, "not reproduced"
