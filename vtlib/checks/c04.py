"""C04 Shard-list metadata always accounts exactly for what is stored.

Inductive step (the main claim, solver-proper): the pre-state is a metadata tree from a bounded SHAPE family
whose every shard example count is an UNCONSTRAINED symbolic integer >= 1 and whose recorded totals satisfy
the representation invariant Inv; one writing session (root / existing, new, nested sub-directory / multi-writer)
whose new shards also have symbolic counts is driven through the real close_shard, _update_infos,
DatasetWriting.write_config, merge_shard_infos, ShardsList.write_config/load_or_create on in-memory documents
(memdocs).  z3 proves for ALL counts: Inv holds afterwards, every total = old total + new counts, shard counts
likewise, no shard listed twice or dropped, untouched splits unchanged, and the handle's in-memory description
equals the stored one.  Histories of any length follow by induction (the post-state is again an Inv-tree).
Grounding (count recorded == examples decodable, real files): the C08 history harness with the audit oracle.
"""
from __future__ import annotations

import logging
from pathlib import Path

from .. import common, memdocs, par
from ..common import Result, Violation
from ..symx import CexFound, ConcreteEngine, Engine, explore
from . import c08

PROP = "C04"
ROOT = Path("/vroot")
HASHES = ("md5",)
FUNCS = [
    "sedpack.io.merge_shard_infos:merge_shard_infos",
    "sedpack.io.shard_file_metadata:ShardsList.write_config",
    "sedpack.io.shard_file_metadata:ShardsList.load_or_create",
    "sedpack.io.dataset_writing:DatasetWriting.write_config",
    "sedpack.io.dataset_filler:_DatasetFillerContext.close_shard",
    "sedpack.io.dataset_filler:DatasetFiller._update_infos",
    "sedpack.io.dataset_filler:DatasetFiller.__exit__",
    "sedpack.io.utils:safe_update_file",
]
SHAPES = {
    "none": None,
    "flat1": dict(shards=1),
    "flat2": dict(shards=2),
    "child": dict(shards=1, children=dict(a=dict(shards=1))),
    "only-child": dict(shards=0, children=dict(a=dict(shards=2))),
    "grandchild": dict(shards=1, children=dict(a=dict(shards=1, children=dict(c=dict(shards=1))))),
    "two-children": dict(shards=1, children=dict(a=dict(shards=1), b=dict(shards=1))),
    "deep": dict(shards=0, children=dict(a=dict(shards=0, children=dict(c=dict(shards=1, children=dict(x=dict(shards=1))))))),
}
SESSIONS = [("root",), ("sub", "a"), ("sub", "b"), ("sub", "a/c"), ("sub", "a/d"), ("sub", "b/c"), ("sub", "a/c/x"),
            ("multi", "u1", "u2"), ("multi", "u1"), ("multi", "u1", "u2", "u3")]


class StubShard:
    def __init__(self, info):
        self.info = info

    def close(self):
        return self.info


def build_pre(e, fs, split, shape, tag):
    """Store the documents of an Inv-tree for `split`; returns (ShardListInfo or None, {path: count term})."""
    from sedpack.io.file_info import FileInfo
    from sedpack.io.metadata import ShardListInfo  # the real class (shard_file_metadata.ShardListInfo is patched by memdocs)
    from sedpack.io.shard_file_metadata import ShardInfo, ShardsList
    counts = {}

    def build(dirp: Path, node, name):
        shard_files = []
        total = 0
        nshards = 0
        for i in range(node.get("shards", 0)):
            c = e.fresh_int(f"old_{tag}_{name}_{i}", 1, None)
            fp = dirp / f"old{i}_{name}.fb"
            counts[str(fp)] = c
            shard_files.append(ShardInfo.model_construct(file_infos=(FileInfo(file_path=fp, hash_checksums=("h",)),),
                                                         number_of_examples=c, custom_metadata={}))
            total = total + c
            nshards += 1
        kids = []
        for cname, cnode in node.get("children", {}).items():
            info, ctotal, cshards = build(dirp / cname, cnode, f"{name}.{cname}")
            kids.append(info)
            total = total + ctotal
            nshards += cshards
        rel = dirp / "shards_list.json"
        lst = ShardsList.model_construct(relative_path_self=rel, number_of_examples=total, shard_files=shard_files,
                                         children_shard_lists=kids)
        doc = fs.mkdoc(lst)
        fs.files[str(ROOT / rel)] = doc
        info = ShardListInfo.model_construct(
            shard_list_info_file=FileInfo(file_path=rel, hash_checksums=tuple(f"{h}:{doc.serial}" for h in HASHES)),
            number_of_examples=total, number_of_shards=nshards)
        return info, total, nshards

    if shape is None:
        return None, counts
    info, _, _ = build(Path(split), shape, split)
    return info, counts


def audit_symbolic(e, fs, d, split, expect_counts, what):
    """Walk the stored tree of `split`; prove Inv and the exact shard set with symbolic counts."""
    info = d._dataset_info.splits.get(split)
    stored = fs.files[str(ROOT / "dataset_info.json")].obj.splits.get(split)
    if info is None or stored is None:
        e.prove(not expect_counts and info is None and stored is None, f"{what}: split {split} missing from the description",
                dict(kind="split-missing"))
        return
    e.prove(stored.shard_list_info_file == info.shard_list_info_file, f"{what}: in-memory split entry names another file / other "
            f"checksums than the stored description", dict(kind="memory-differs-from-disk"))
    e.prove(stored.number_of_examples == info.number_of_examples, f"{what}: in-memory example count differs from the stored one",
            dict(kind="memory-differs-from-disk"))
    e.prove(stored.number_of_shards == info.number_of_shards, f"{what}: in-memory shard count differs from the stored one",
            dict(kind="memory-differs-from-disk"))
    seen = {}

    def walk(li, depth):
        rel = li.shard_list_info_file.file_path
        key = str(ROOT / rel)
        e.prove(key in fs.files, f"{what}: listed shards list {rel} does not exist", dict(kind="list-missing"))
        doc = fs.files[key]
        e.prove(li.shard_list_info_file.hash_checksums == tuple(f"{h}:{doc.serial}" for h in HASHES),
                f"{what}: recorded checksums of {rel} are not those of its current content", dict(kind="stale-list-checksum"))
        lst = doc.obj
        e.prove(lst.relative_path_self == rel, f"{what}: {rel} says it is {lst.relative_path_self}", dict(kind="wrong-self-path"))
        total = 0
        nshards = 0
        for s in lst.shard_files:
            fp = s.file_infos[0].file_path
            e.prove(fp.parent == rel.parent, f"{what}: shard {fp} listed in {rel} (not its directory)", dict(kind="shard-in-wrong-list"))
            e.prove(str(fp) not in seen, f"{what}: shard {fp} is listed twice", dict(kind="shard-listed-twice"))
            seen[str(fp)] = s.number_of_examples
            total = total + s.number_of_examples
            nshards += 1
        for c in lst.children_shard_lists:
            crel = c.shard_list_info_file.file_path
            e.prove(crel.parent.parent == rel.parent, f"{what}: child {crel} of {rel} is not in a direct sub-directory",
                    dict(kind="child-misplaced"))
            ctotal, cshards = walk(c, depth + 1)
            e.prove(c.number_of_examples == ctotal, f"{what}: {rel} records child {crel} with a wrong example total",
                    dict(kind="child-total-wrong"))
            e.prove(c.number_of_shards == cshards, f"{what}: {rel} records child {crel} with {c.number_of_shards} shards, "
                    f"its tree holds {cshards}", dict(kind="child-shards-wrong"))
            total = total + ctotal
            nshards += cshards
        e.prove(lst.number_of_examples == total, f"{what}: total of {rel} != sum over its shards and children", dict(kind="list-total-wrong"))
        return total, nshards

    total, nshards = walk(info, 0)
    e.prove(info.number_of_examples == total, f"{what}: split {split} example count != true total", dict(kind="split-total-wrong"))
    e.prove(info.number_of_shards == nshards, f"{what}: split {split} records {info.number_of_shards} shards, tree holds {nshards}",
            dict(kind="split-shards-wrong"))
    e.prove(set(seen) == set(expect_counts), f"{what}: listed shards {sorted(set(seen) ^ set(expect_counts))} dropped or invented",
            dict(kind="shard-dropped-or-invented"))
    for fp, c in expect_counts.items():
        if fp in seen:
            e.prove(seen[fp] == c, f"{what}: shard {fp} is recorded with a different example count than it holds",
                    dict(kind="shard-count-changed"))
    want_total = 0
    for c in expect_counts.values():
        want_total = want_total + c
    e.prove(info.number_of_examples == want_total, f"{what}: split total != old total + newly written", dict(kind="split-total-wrong"))


def step(e, cfg):
    common.import_sedpack()
    from sedpack.io import Dataset
    from sedpack.io.dataset_filler import DatasetFiller
    from sedpack.io.file_info import FileInfo
    from sedpack.io.metadata import DatasetInfo, DatasetStructure
    from sedpack.io.shard_file_metadata import ShardInfo
    shape = SHAPES[cfg["shape"]]
    session = tuple(cfg["session"])
    k = cfg["k"]
    with memdocs.memfs() as fs:
        d = Dataset.__new__(Dataset)
        d.path = ROOT
        d._logger = logging.getLogger("vt")
        d._dataset_info = DatasetInfo(dataset_structure=DatasetStructure(hash_checksum_algorithms=HASHES, shard_file_type="fb",
                                                                         compression=""))
        pre_train, counts_train = build_pre(e, fs, "train", shape, "tr")
        pre_test, counts_test = build_pre(e, fs, "test", SHAPES["child"], "te")
        if pre_train is not None:
            d._dataset_info.splits["train"] = pre_train
        d._dataset_info.splits["test"] = pre_test
        fs.files[str(ROOT / "dataset_info.json")] = fs.mkdoc(d._dataset_info)
        test_doc_serials = {p: doc.serial for p, doc in fs.files.items() if "/test/" in p}
        expect = dict(counts_train)
        new_n = 0

        def run_filler(rel, auto):
            nonlocal new_n
            filler = DatasetFiller(d, relative_path_from_split=Path(rel), auto_update_dataset=auto)
            ctx = filler.__enter__()
            for _ in range(k):
                c = e.fresh_int(f"new_{new_n}", 1, None)
                fp = Path("train") / rel / f"new{new_n}.fb"
                new_n += 1
                expect[str(Path(fp))] = c
                info = ShardInfo.model_construct(file_infos=(FileInfo(file_path=fp, hash_checksums=("h",)),),
                                                 number_of_examples=c, custom_metadata={})
                ctx.close_shard(shard=StubShard(info), split="train")
            filler.__exit__(None, None, None)
            return filler

        try:
            if session[0] == "root":
                run_filler(".", True)
            elif session[0] == "sub":
                run_filler(session[1], True)
            else:
                fillers = [run_filler(u, False) for u in session[1:]]
                updated = []
                for f in fillers:
                    updated.extend(f.get_updated_infos())
                d.write_config(updated_infos=updated)
        except CexFound:
            raise
        except Exception as exc:  # noqa: BLE001
            e.fail(f"step {cfg} raised {type(exc).__name__}: {str(exc)[:100]}",
                   dict(kind=("reused-subdir-step-raised" if isinstance(exc, AssertionError) else f"step-raised-{type(exc).__name__}")))
        what = f"pre-state {cfg['shape']} + session {session} x{k}"
        audit_symbolic(e, fs, d, "train", expect, what)
        audit_symbolic(e, fs, d, "test", counts_test, what + " (untouched split)")
        now = {p: doc.serial for p, doc in fs.files.items() if "/test/" in p}
        e.prove(now == test_doc_serials, f"{what}: documents of the untouched split were rewritten", dict(kind="untouched-split-rewritten"))
        leftovers = [p for p in fs.files if "update_" in p]
        e.prove(not leftovers, f"{what}: temporary update files left behind {leftovers[:2]}", dict(kind="temp-files-left"))
    return dict(shape=cfg["shape"], session=list(session), k=k)


def _cell(cell):
    return explore(lambda e: step(e, cell))


def run(tier, seed):
    common.import_sedpack()
    cs = []
    for shape in SHAPES:
        for sess in SESSIONS:
            for k in ((1, 2) if tier == "thorough" else (2,)):
                cs.append(dict(shape=shape, session=list(sess), k=k))
    st, per_cell, errors = par.run_cells(_cell, cs, procs=8)
    viols, seen = [], set()
    for c in st.cex:
        kind = (c.get("info") or {}).get("kind", c["msg"][:40])
        sig = f"C04:{kind}"
        if sig in seen:
            continue
        seen.add(sig)
        viols.append(Violation(sig, c["msg"], dict(kind="step", msg=c["msg"], model=c["model"])))
    # grounding: real files, real decoder (shares the C08 harness; reported under C04 signatures)
    gcs = [dict(sessions=2, kind0=k, nchoices=1) for k in range(len(c08.KINDS))] if tier == "quick" else c08.cells("quick")
    gst, _, gerr = par.run_cells(c08._cell, gcs)
    for v in c08.collect(gst, "C04"):
        if v.signature not in seen:
            seen.add(v.signature)
            v.case["kind"] = "history"
            viols.append(v)
    # a completed session in which the caller skipped a write the writer refused (shares the C18 harness: symbolic
    # position / attribute / kind of the refused write, symbolic examples_per_shard): counts must not include it
    from . import c18
    rst, _, rerr = par.run_cells(c18._cell, [dict(ft="fb", n=n, md=False) for n in ((2, 3) if tier == "quick" else (1, 2, 3, 4))])
    for c in rst.cex:
        kind = (c.get("info") or {}).get("kind", "")
        if kind != "counts-include-rejected-write":
            continue  # the other obligations of that harness belong to C18
        sig = "C04:counts-include-rejected-write"
        if sig not in seen:
            seen.add(sig)
            viols.append(Violation(sig, c["msg"], dict(kind="rejected-write", model=c["model"],
                                                       cfg=dict(ft="fb", n=int(c["msg"].split(" of ")[1].split()[0]), md=False))))
    gerr = gerr + rerr
    gst.merge(rst)
    st_all = st.as_dict()
    st_all["grounding"] = gst.as_dict()
    return Result(
        property_id=PROP, engine="symx + memdocs",
        explanation="Inductive step decided by z3 on the real merge/write_config/filler bookkeeping code: for each (pre-state shape, "
                    "session kind) there is ONE execution path on which every shard count is an unconstrained symbolic integer; "
                    "the invariant and exactness obligations are proved for all counts.  Pre-states satisfy Inv by construction "
                    "(built by the harness, not by the code under test).  Grounding of 'recorded count == decodable examples' "
                    "and file existence uses the C08 history exploration on real files with an independent audit.",
        functions=FUNCS,
        bounds=dict(shapes=list(SHAPES), sessions=[list(s) for s in SESSIONS], new_shards_per_session="2 quick / 1..2 thorough",
                    counts=">= 1, unbounded", depth="<= 4 levels"),
        stats=st_all, samples=st.samples + gst.samples[:2],
        assumptions=["z3 sound", "memdocs: dump/load of the metadata models is the identity on their field values (pydantic-core "
                     "JSON code is compiled; its round trip is anchored in C20)", "hash tokens are injective (collision resistance)",
                     "one live handle at a time"],
        outside=["tree shapes outside the family (the merge is structurally recursive; that is an argument, not a check)"],
        violations=viols, inconclusive=st.inconclusive + gst.inconclusive, harness_errors=errors + gerr,
        twin=dict(obligations_reached=st.proves, grounding_obligations=gst.proves),
        rule="step: one evaluation = one (shape, session, k) cell = one symbolic path covering all counts; grounding: one path = "
             "one concrete history x E-class",
        evaluations=st.paths + gst.paths, distinct_nontrivial=st.paths + gst.paths - st.aborted - gst.aborted,
    )


def replay(case):
    """Replay on real files through the public API with concrete counts."""
    common.import_sedpack()
    if case.get("kind") == "history":
        return c08.replay(case)
    if case.get("kind") == "rejected-write":
        from . import c18
        return c18.replay(dict(model=case["model"], cfg=case["cfg"]))
    # a step counter-example: re-run a family of concrete histories that produce the shapes, through C08's scenario
    from ..symx import ConcreteEngine as CE
    K = {k: i for i, k in enumerate(c08.KINDS)}
    histories = [
        [K["sub:a"], K["sub:a"]], [K["sub:a"], K["sub:a/c"]], [K["root"], K["sub:a"]], [K["sub:a/c"], K["sub:a"]],
        [K["root"], K["multi1"]], [K["multi1"], K["multi2"]], [K["sub:a"], K["sub:b"]], [K["root"], K["root"]],
        [K["multi2"], K["root"]], [K["sub:a/c"], K["sub:a/c"]], [K["sub:b"], K["sub:a"], K["sub:a/c"]],
    ]
    for h in histories:
        model = {"E": 1}
        for i, kd in enumerate(h):
            model.update({f"kind{i}": kd, f"split{i}": 0, f"n{i}": 1, f"reopen{i}": 0})
        try:
            c08.scenario(CE(model), dict(sessions=len(h), nchoices=2))
        except CexFound as c:
            return True, f"reproduced on real files with history {[c08.KINDS[x] for x in h]}: {c.msg}"
    return False, "no concrete history of the replay family violates the oracle on real files"
