"""C12 Shard selection options mean the same thing in every iteration interface.

Real code driven: DatasetIteration.shard_paths_dataset, as_numpy_common, as_numpy_iterator,
as_numpy_iterator_concurrent, as_numpy_iterator_async, as_numpy_iterator_rust / RustGenerator,
as_tfdataset (both branches).  Symbolic: one filter bit per shard (the caller's predicate), `shards`
(None or k in [1, S+1]), `custom_metadata_type_limit` (None or n in [1, S+1]).  Finite fork (harness
cells): interface, shard format, number of shards S and their metadata groups.
"""
from __future__ import annotations

import asyncio
import types

from .. import common, fillerlab, iterlab, par
from ..common import Result, Violation
from ..symx import CexFound, ConcreteEngine, explore

PROP = "C12"
FUNCS = [
    "sedpack.io.dataset_iteration:DatasetIteration.shard_paths_dataset",
    "sedpack.io.dataset_iteration:DatasetIteration.as_numpy_common",
    "sedpack.io.dataset_iteration:DatasetIteration.as_numpy_iterator",
    "sedpack.io.dataset_iteration:DatasetIteration.as_numpy_iterator_concurrent",
    "sedpack.io.dataset_iteration:DatasetIteration.as_numpy_iterator_async",
    "sedpack.io.dataset_iteration:DatasetIteration.as_numpy_iterator_rust",
    "sedpack.io.dataset_iteration:RustGenerator._single_iter",
    "sedpack.io.dataset_iteration:DatasetIteration.as_tfdataset",
    "sedpack.io.dataset_base:DatasetBase.shard_info_iterator",
]
# interface -> options it accepts
IFACES = {
    "numpy": ("shards", "limit", "filter"),
    "concurrent": ("shards", "limit", "filter"),
    "async": ("shards", "filter"),
    "rust": ("shards", "filter"),
    "tfdataset": ("shards", "limit", "filter"),
    "tfdataset-tfrec": ("shards", "limit", "filter"),
    "numpy-tfrec": ("shards", "limit", "filter"),
    "concurrent-tfrec": ("shards", "limit", "filter"),
}
GROUPS = [None, {"g": 0}, {"g": 1}, {"g": 2}]


def _collect(d, iface, kw, real):
    """Run one interface on the real code; return the list of example ids reaching the consumer."""
    import sedpack.io.dataset_iteration as di
    common_kw = dict(split="train", repeat=False, shuffle=0)
    if iface in ("numpy", "numpy-tfrec"):
        return [int(x["a"][0]) if isinstance(x, dict) else x for x in d.as_numpy_iterator(**common_kw, **kw)]
    if iface in ("concurrent", "concurrent-tfrec"):
        return [int(x["a"][0]) if isinstance(x, dict) else x
                for x in d.as_numpy_iterator_concurrent(**common_kw, file_parallelism=2, **kw)]
    if iface == "async":
        async def run():
            return [int(x["a"][0]) async for x in d.as_numpy_iterator_async(**common_kw, file_parallelism=2, **kw)]
        return asyncio.run(run())
    if iface == "rust":
        if real:
            return [int(x["a"][0]) for x in d.as_numpy_iterator_rust(**common_kw, file_parallelism=2, **kw)]
        stub = types.SimpleNamespace(RustIter=iterlab.fresh_rust_stub())
        with iterlab.patched(di, _sedpack_rs=stub):
            return [int(x["a"][0]) for x in d.as_numpy_iterator_rust(**common_kw, file_parallelism=2, **kw)]
    if iface in ("tfdataset", "tfdataset-tfrec"):
        if real:
            ds = d.as_tfdataset("train", repeat=False, shuffle=0, batch_size=0, file_parallelism=2, **kw)
            return [int(x["a"][0]) for x in ds.as_numpy_iterator()]
        rec = iterlab.RecTF()
        with iterlab.patched(di, tf=rec, get_from_tfrecord=lambda desc: ("decode-record", len(desc))):
            ds = d.as_tfdataset("train", repeat=False, shuffle=0, batch_size=0, file_parallelism=2, **kw)
            if ds.source == "from_generator":
                return [int(x["a"][0]) for x in ds.run_generator()]
            assert ds.source == "from_tensor_slices"
            out = []
            for p in ds.payload:
                out += d.__vt_table__[p]
            return out
    raise AssertionError(iface)


def scenario(e, cfg, d=None, real=False):
    """cfg: iface, ft, groups (tuple of indices into GROUPS, one per shard)."""
    common.import_sedpack(need_tf=real)
    import sedpack.io.dataset_iteration as di
    iface, groups = cfg["iface"], cfg["groups"]
    S = len(groups)
    own = d is None
    ctx = common.scratch_dir("vt12_") if own else None
    tmp = ctx.__enter__() if own else None
    try:
        if own:
            d = build(tmp, cfg, real)
        opts = IFACES[iface]
        if not real:
            # a fresh handle per explored path (no state shared between paths), same files
            d0 = d
            d = type(d0)(d0.path)
            d.dataset_structure.shard_file_type = d0.dataset_structure.shard_file_type
            d.__vt_table__ = d0.__vt_table__
        infos = list(d.shard_info_iterator("train"))
        index = {str(d.path / si.file_infos[0].file_path): i for i, si in enumerate(infos)}
        bits = [e.fresh_bool(f"keep{i}") for i in range(S)]
        k = L = None
        if e.choice("use_k", 2):
            k = e.fresh_int("k", 1, S + 1)
        if "limit" in opts and e.choice("use_limit", 2):
            L = e.fresh_int("limit", 1, S + 1)
        use_filter = e.choice("use_filter", 2)
        kw = {}
        if k is not None:
            kw["shards"] = k
        if L is not None:
            kw["custom_metadata_type_limit"] = L
        if use_filter:
            kw["shard_filter"] = lambda s: bits[index[str(d.path / s.file_infos[0].file_path)]]
        raised = None
        got = None
        try:
            if iface.endswith("-tfrec") and not real and iface != "tfdataset-tfrec":
                dec = iterlab.fresh_token_decoder(d.__vt_table__)
                with iterlab.patched(di, IterateShardTFRec=dec):
                    got = _collect(d, iface, kw, real)
            else:
                got = _collect(d, iface, kw, real)
        except ValueError as exc:
            raised = exc
        except CexFound:
            raise
        except Exception as exc:  # noqa: BLE001
            e.fail(f"{iface}: unexpected {type(exc).__name__}: {str(exc)[:100]}", dict(kind=f"{iface}-raised-{type(exc).__name__}"))
        # ---- reference: filter -> non-empty -> first k -> first n per metadata value, order kept
        sel = [i for i in range(S) if (not use_filter) or bits[i]]
        if not sel:
            e.prove(raised is not None, f"{iface}: selection matching no shard returned {got} instead of raising",
                    dict(kind=f"{iface}-empty-selection-not-an-error"))
            return dict(iface=iface, selected=[])
        if k is not None:
            sel = sel[:k]
        if L is not None:
            cnt, out = {}, []
            for i in sel:
                key = str(sorted((infos[i].custom_metadata or {}).items()))
                cnt[key] = cnt.get(key, 0) + 1
                if cnt[key] <= L:
                    out.append(i)
            sel = out
        want = []
        for i in sel:
            want += d.__vt_table__[str(d.path / infos[i].file_infos[0].file_path)]
        e.prove(raised is None, f"{iface}: raised {raised!r} although shards {sel} are selected",
                dict(kind=f"{iface}-raised-on-non-empty-selection"))
        e.prove(got == want, f"{iface}[{cfg['ft']}] groups={groups} options={_show(kw)}: consumer got examples {got}, "
                             f"selected shards hold {want}",
                dict(kind=f"{iface}-selection-differs" + ("" if L is None else "-with-custom_metadata_type_limit")))
        second_pass(e, d, infos, kw, cfg)
        return dict(iface=iface, selected=sel, options=_show(kw))
    finally:
        if own:
            ctx.__exit__(None, None, None)


def second_pass(e, d, infos, kw, cfg):
    """A later selection on the SAME handle must not be influenced by the earlier one: the options of the first
    pass minus the predicate / minus everything / with an accept-all predicate."""
    variant = e.choice("second_pass", 3)
    kw2 = {k: v for k, v in kw.items() if k != "shard_filter"}
    if variant == 1:
        kw2 = {}
    elif variant == 2:
        kw2["shard_filter"] = lambda s: True
    sel = list(range(len(infos)))
    if kw2.get("shards") is not None:
        sel = sel[:kw2["shards"]]
    if kw2.get("custom_metadata_type_limit") is not None:
        cnt, out = {}, []
        for i in sel:
            key = str(sorted((infos[i].custom_metadata or {}).items()))
            cnt[key] = cnt.get(key, 0) + 1
            if cnt[key] <= kw2["custom_metadata_type_limit"]:
                out.append(i)
        sel = out
    want = [str(d.path / infos[i].file_infos[0].file_path) for i in sel]
    got = d.shard_paths_dataset(split="train", **kw2)
    e.prove(list(got) == want, f"second selection on the same handle {_show(kw2)} after {_show(kw)} on groups={cfg['groups']}: "
                               f"got {len(got)} shards {[p[-8:] for p in got]}, expected {len(want)}",
            dict(kind="selection-depends-on-earlier-call"))


def _show(kw):
    return {k: (v if not callable(v) else "<predicate>") for k, v in kw.items()}


def build(tmp, cfg, real=False):
    ft = cfg["ft"]
    groups = cfg["groups"]
    tfrec = cfg["iface"].endswith("-tfrec")
    write_ft = "tfrec" if (tfrec and real) else ft
    d = iterlab.build_dataset(tmp / "ds", ft=write_ft, shard_sizes=[cfg.get("per_shard", 2)] * len(groups),
                              metadata=[GROUPS[g] for g in groups])
    table = {}
    v = 0
    for si in d.shard_info_iterator("train"):
        table[str(d.path / si.file_infos[0].file_path)] = list(range(v, v + si.number_of_examples))
        v += si.number_of_examples
    if tfrec and not real:
        d.dataset_structure.shard_file_type = "tfrec"  # in memory only; decoders are stubbed, files are never parsed
    d.__vt_table__ = table
    return d


def _cell(cell):
    common.import_sedpack()
    with common.scratch_dir("vt12_") as tmp:
        d = build(tmp, cell)
        return explore(lambda e: scenario(e, cell, d))


def cells(tier):
    if tier == "quick":
        patterns = [(1,), (1, 1), (1, 2), (1, 1, 2), (1, 2, 1), (0, 1, 1), (1, 2, 2, 1), (1, 1, 1, 2)]  # the last: unbalanced groups
        fts = {"numpy": ["fb", "npz"], "concurrent": ["fb"], "async": ["fb", "npz"], "rust": ["fb"], "tfdataset": ["fb", "npz"],
               "tfdataset-tfrec": ["fb"], "numpy-tfrec": ["fb"], "concurrent-tfrec": ["fb"]}
    else:
        patterns = [(1,), (1, 1), (1, 2), (1, 1, 2), (1, 2, 1), (0, 1, 1), (1, 2, 2, 1), (1, 1, 1, 1), (1, 2, 3, 1),
                    (0, 1, 0, 1), (1, 1, 2, 2, 1), (1, 2, 1, 2, 1), (3, 3, 3, 1, 3)]
        fts = {"numpy": ["fb", "npz"], "concurrent": ["fb", "npz"], "async": ["fb", "npz"], "rust": ["fb"],
               "tfdataset": ["fb", "npz"], "tfdataset-tfrec": ["fb"], "numpy-tfrec": ["fb"], "concurrent-tfrec": ["fb"]}
    out = []
    for iface, fl in fts.items():
        for ft in fl:
            for g in patterns:
                out.append(dict(iface=iface, ft=ft, groups=g))
    out.sort(key=lambda c: -len(c["groups"]))
    return out


def run(tier, seed):
    common.import_sedpack()
    cs = cells(tier)
    st, per_cell, errors = par.run_cells(_cell, cs)
    viols, seen = [], set()
    for c in st.cex:
        kind = (c.get("info") or {}).get("kind", c["msg"][:40])
        sig = f"C12:{kind}"
        if sig in seen:
            continue
        seen.add(sig)
        cfg = _cfg_from_msg(c, cs)
        viols.append(Violation(sig, f"{c['msg']} (model {c['model']})", dict(model=c["model"], cfg=cfg)))
    return Result(
        property_id=PROP, engine="symx",
        explanation="Bounded symbolic execution of the real shard selection and of every iteration interface with z3: the "
                    "caller's predicate is one symbolic bit per shard, `shards` and `custom_metadata_type_limit` are symbolic "
                    "integers (or absent); on every path the examples that reach the consumer are compared with the reference "
                    "selection (filter, non-empty check, first k, first n per metadata value).  Interfaces run with the real "
                    "fb/npz decoders; the native iterator, tf.data and the tfrec decoder are replaced by contract/recording stubs "
                    "(selection happens before them).",
        functions=FUNCS, bounds=dict(shards="<= 4 quick / <= 5 thorough", k="None or 1..S+1", limit="None or 1..S+1",
                                     cells=len(cs), interfaces=list(IFACES)),
        stats=st.as_dict(), samples=st.samples,
        assumptions=["z3 sound", "tf.data.Dataset.from_generator iterates the generator it is given; from_tensor_slices + "
                     "interleave(TFRecordDataset) reads exactly the listed files (TF contract, recorded not executed)",
                     "StubRustIter: native iterator yields the examples of the files it is given (C15)"],
        outside=["shards=0 / limit=0 (mean 'no limit' in the code; the property quantifies k,n >= 1)", "TF runtime execution"],
        violations=viols, inconclusive=st.inconclusive, harness_errors=errors,
        twin=dict(obligations_reached=st.proves),
        rule="one evaluation = one explored path (interface x dataset cell x filter bits x option classes); non-trivial = reached "
             "the comparison obligation",
        evaluations=st.paths, distinct_nontrivial=st.paths - st.aborted,
    )


def _cfg_from_msg(c, cs):
    msg = c["msg"]
    if msg.startswith("second selection"):
        groups = tuple(int(x) for x in msg.split("groups=(")[1].split(")")[0].replace(",", " ").split())
        return dict(iface="numpy", ft="fb", groups=list(groups))
    iface = msg.split(":")[0].split("[")[0]
    ft = "fb"
    if "[" in msg.split(":")[0]:
        ft = msg.split("[")[1].split("]")[0]
    groups = None
    if "groups=(" in msg:
        groups = tuple(int(x) for x in msg.split("groups=(")[1].split(")")[0].replace(",", " ").split())
    if groups is None:
        nkeep = 1 + max([int(k[4:]) for k in c["model"] if k.startswith("keep")] or [0])
        groups = tuple([1] * nkeep)
    return dict(iface=iface, ft=ft, groups=list(groups))


def replay(case):
    cfg = dict(case["cfg"])
    cfg["groups"] = tuple(cfg["groups"])
    e = ConcreteEngine(case["model"])
    try:
        scenario(e, cfg, None, real=True)
    except CexFound as c:
        return True, f"reproduced with the real decoders / TF / native iterator, {case['model']}: {c.msg}"
    return False, "the concrete run on the real code satisfied the oracle"
