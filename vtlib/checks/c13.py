"""C13 The lazy thread pool is correct under every thread interleaving (pocomp, see vtlib/pocomp.py)."""
from __future__ import annotations

import json
import os
import time

import z3

from .. import common, par, pocomp
from ..common import Result, Violation
from ..symx import Stats

PROP = "C13"
FUNCS = [
    "sedpack.io.itertools.lazy_pool:LazyPool.imap_unordered",
    "sedpack.io.itertools.lazy_pool:LazyPool.finish_and_reset",
    "sedpack.io.itertools.lazy_pool:LazyPool.__enter__",
    "sedpack.io.itertools.lazy_pool:LazyPool.__exit__",
    "sedpack.io.itertools.lazy_pool:Collector.run",
]


def configs(tier):
    if tier == "quick":
        return [dict(c, query_timeout_s=150) for c in [dict(T=1, nmax=5, variant="plain"), dict(T=1, nmax=5, variant="values", none_inputs=True), dict(T=1, nmax=5, variant="fail"), dict(T=1, nmax=7, variant="early"),
                dict(T=2, nmax=2, variant="plain"), dict(T=2, nmax=2, variant="fail"), dict(T=2, nmax=2, variant="early"),
                dict(T=1, nmax=1, variant="early")]]  # the last: tiny, stays decidable when racy probes blow the other summaries up
    return [dict(T=1, nmax=7, variant=v) for v in ("plain", "fail", "early")] + [dict(T=1, nmax=6, variant="values", none_inputs=True),
                                                                                  dict(T=2, nmax=2, variant="values", none_inputs=True)] + \
           [dict(T=2, nmax=3, variant=v) for v in ("plain", "fail", "early")] + \
           [dict(T=3, nmax=2, variant="plain"), dict(T=3, nmax=1, variant="fail"), dict(T=3, nmax=2, variant="early"),
            dict(T=1, nmax=1, variant="early"), dict(T=1, nmax=2, variant="plain")]
    # measured: T=2 n<=4 'fail' and T=3 n<=2 'fail' exceed the 600 s per-query solver budget (unknown) -> outside the claim


def run_config(cfg):
    """Returns a Stats-like object (picklable) carrying query records and counter-examples."""
    common.import_sedpack()
    st = Stats()
    lp = pocomp.load_module()
    T, nmax, variant = cfg["T"], cfg["nmax"], cfg["variant"]
    t0 = time.time()
    try:
        comp = pocomp.Composition(lp, T, nmax, fail=(variant == "fail"), early=(variant == "early"),
                                  query_timeout_s=cfg.get("query_timeout_s", 600), none_inputs=bool(cfg.get("none_inputs")))
    except pocomp.Inconclusive as inc:
        st.inconclusive.append(f"{cfg}: {inc}")
        return st
    st.inconclusive += [f"{cfg}: {x}" for x in comp.inconclusive]
    n, i = comp.n, z3.Int("i")
    tag = f"T={T} n<={nmax} {variant}"

    def want_unsat(name, kind, *extra):
        r, m = comp.query(name, *extra, expect="unsat")
        st.proves += 1
        if r == "unsat":
            st.proved += 1
        elif r == "sat":
            st.cex.append(dict(msg=f"[{tag}] {name}", model={}, info=dict(kind=kind, cfg=cfg, schedule=comp.schedule(m))))
        else:
            st.inconclusive.append(f"[{tag}] {name}: solver {r}")

    def want_sat(name, *extra):
        r, m = comp.query(name, *extra, expect="sat")
        st.proves += 1
        if r == "sat":
            st.proved += 1
            if len(st.samples) < 2:
                st.samples.append(dict(query=name, cfg=cfg, schedule=comp.schedule(m)))
        elif r == "unsat":
            st.inconclusive.append(f"[{tag}] reachability twin '{name}' is unsat: the encoding is vacuous")
        else:
            st.inconclusive.append(f"[{tag}] {name}: solver {r}")

    r, m = comp.query("unwinding limit reachable", z3.Or(comp.limit_hit + [z3.BoolVal(False)]), expect="unsat")
    st.proves += 1
    if r == "unsat":
        st.proved += 1
    elif comp.has_timeouts and r == "sat":
        pass  # timed gets can spin; bounded by the limit on purpose (stated in evidence)
    else:
        st.inconclusive.append(f"[{tag}] unwinding assertion failed ({r}): get-count limit too small for the bounds")
    want_unsat("deadlock or leaked worker: a maximal state in which some thread is blocked forever at a get",
               "deadlock-or-leak" if variant != "fail" else "deadlock-when-mapped-function-fails",
               comp.all_stuck(), comp.any_blocked())
    if variant == "values":
        # the VALUES of the inputs are arbitrary objects (one of them may be None): the pool must not read meaning into them
        want_unsat("no call failed, yet an exception made up by the pool reaches the consumer (an input VALUE mistaken for a marker)",
                   "pool-raises-without-failure", z3.Or(comp.foreign_raises + [z3.BoolVal(False)]))
        cnt = z3.Sum([z3.If(z3.And(ex, comp.idxQr(j) == i), 1, 0) for ex, j, _ in comp.emits] + [z3.IntVal(0)])
        want_unsat("all threads finished, consumer ended normally, but some input was not yielded exactly once",
                   "not-exactly-once", comp.all_finished(), z3.Or(comp.normal_end + [z3.BoolVal(False)]), i >= 0, i < n, cnt != 1)
        want_sat("twin: all threads finished with n = nmax", comp.all_finished(), n == nmax)
    elif variant == "plain":
        want_unsat("no call failed, yet an exception made up by the pool reaches the consumer",
                   "pool-raises-without-failure", z3.Or(comp.foreign_raises + [z3.BoolVal(False)]))
        cnt = z3.Sum([z3.If(z3.And(ex, comp.idxQr(j) == i), 1, 0) for ex, j, _ in comp.emits] + [z3.IntVal(0)])
        want_unsat("all threads finished, consumer ended normally, but some input was not yielded exactly once",
                   "not-exactly-once", comp.all_finished(), z3.Or(comp.normal_end + [z3.BoolVal(False)]), i >= 0, i < n, cnt != 1)
        emitted = z3.Sum([z3.If(ex, 1, 0) for ex, _, _ in comp.emits] + [z3.IntVal(0)])
        put = z3.Sum([z3.If(ex, 1, 0) for ex in comp.items_put] + [z3.IntVal(0)])
        want_unsat(f"read-ahead: more than 2T+3={2 * T + 3} inputs handed to the workers beyond the results yielded",
                   "read-ahead-exceeds-2T+3", put - emitted > 2 * T + 3)
        want_unsat("consumer ended with the pool not reset (cannot be reused)", "pool-not-reusable",
                   z3.Or(comp.state_bad + [z3.BoolVal(False)]))
        want_sat("twin: all threads finished with n = nmax", comp.all_finished(), n == nmax)
    elif variant == "fail":
        want_unsat("the mapped function failed on an input, all threads finished, but the consumer ended normally (error swallowed)",
                   "failure-not-surfaced", comp.all_finished(), z3.Or(comp.normal_end + [z3.BoolVal(False)]),
                   comp.j0 >= 0, comp.j0 < n)
        want_unsat("the consumer had already received the failure record and still yielded a result or handed a further input to the "
                   "workers (the error is deferred to the end of the input: on a repeating, endless input it never surfaces)",
                   "failure-deferred", z3.Or(comp.after_failure + [z3.BoolVal(False)]))
        want_unsat("consumer ended with the pool not reset after a failure", "pool-not-reusable-after-failure",
                   z3.Or(comp.state_bad + [z3.BoolVal(False)]))
        want_sat("twin: the consumer observes the failure", z3.Or(comp.raises + [z3.BoolVal(False)]), comp.j0 >= 0, comp.j0 < n)
    else:
        want_unsat("consumer left early with the pool not reset (cannot be reused)", "pool-not-reusable-after-early-exit",
                   z3.Or(comp.state_bad + [z3.BoolVal(False)]))
        want_sat("twin: early exit before the end and everybody finished", comp.all_finished(), n == nmax,
                 *([comp.x < n] if nmax >= 2 else []))
    st.paths = comp.extract_stats["worker_paths"] + comp.extract_stats["consumer_paths"]
    st.queries = len(comp.queries) + comp.extract_stats["worker_explore"]["queries"] + comp.extract_stats["consumer_explore"]["queries"]
    st.qtime = sum(q["solver_s"] for q in comp.queries)
    st.notes = dict(cfg=cfg, extract=comp.extract_stats, queries=comp.queries, wall=round(time.time() - t0, 1))
    return st


def run(tier, seed):
    common.import_sedpack()
    cs = configs(tier)
    total = Stats()
    notes, errors = [], []
    st, per_cell, errors = par.run_cells(run_config, cs)
    # par.merge drops custom attributes; re-run collection of notes through cex/samples only
    viols, seen = [], set()
    for c in st.cex:
        info = c["info"]
        sig = f"C13:{info['kind']}"
        if sig in seen:
            continue
        seen.add(sig)
        sch = info["schedule"]
        viols.append(Violation(sig, f"{c['msg']}: n={sch['n']} T={sch['T']} failing_input={sch.get('failing_input')} "
                                    f"early_exit_after={sch.get('early_exit_after')}; schedule: {sch['order'][:24]}",
                               dict(kind=info["kind"], schedule=sch)))
    return Result(
        property_id=PROP, engine="pocomp (symx summaries + z3 partial-order composition)",
        explanation="Thread-modular: the real Collector.run and the real LazyPool consumer code are executed symbolically one thread "
                    "at a time against recording queues (class of every received object symbolic, failure of the mapped function "
                    "symbolic, n and the early-exit position symbolic); z3 then composes the per-thread event paths as a partial "
                    "order (timestamps, FIFO ranks, data flow through uninterpreted functions).  Each query asks for ONE consistent "
                    "schedule violating the property; unsat = no interleaving within the bounds does.  An unwinding query shows "
                    "the get-count limits are not reached; a twin query shows the encoding is satisfiable.",
        functions=FUNCS,
        bounds=dict(configurations=cs, note="n <= nmax inputs, T threads; all interleavings at queue-operation granularity"),
        stats=dict(paths=st.paths, queries=st.queries, solver_s=round(st.qtime, 2), obligations=st.proves, discharged=st.proved,
                   realisation_forks=0),
        samples=st.samples,
        assumptions=["queue.Queue is an unbounded FIFO with blocking get (CPython semantics)", "Thread.start runs run() in a new thread",
                     "the mapped function does not touch the queues", "a get with a timeout may time out only while the queue is empty"],
        outside=["thread counts / input lengths beyond the configurations", "interleavings inside a single queue operation (atomic by the "
                 "queue's lock)", "exceptions that are not Exception subclasses"],
        violations=viols, inconclusive=st.inconclusive, harness_errors=errors,
        twin=dict(queries=st.proves, as_expected=st.proved),
        rule="one evaluation = one z3 query over all schedules of one configuration (plus the per-thread paths explored to build it)",
        evaluations=st.proves + st.paths, distinct_nontrivial=st.proves,
    )


def _deferred_failure(sch):
    """Real pool, real threads, an ENDLESS input on which one call fails: the consumer must see the error after a bounded
    number of further results."""
    import importlib
    import itertools
    import threading
    import sedpack.io.itertools.lazy_pool as lp
    lp = importlib.reload(lp)
    T = sch["T"]
    j0 = sch.get("failing_input")
    j0 = j0 if isinstance(j0, int) and j0 >= 0 else 0
    out = dict(results=0, raised=None)

    def f(v):
        if v == j0:
            raise OSError(f"vt: call on input {v} fails")
        return v

    def consume():
        try:
            with lp.LazyPool(T) as pool:
                for _ in pool.imap_unordered(f, itertools.count()):
                    out["results"] += 1
                    if out["results"] >= 400:
                        break
        except OSError as exc:
            out["raised"] = str(exc)
    th = threading.Thread(target=consume, daemon=True)
    th.start()
    th.join(60)
    if out["raised"] is None:
        return True, (f"real LazyPool({T}) on an endless input whose call #{j0} fails: the consumer received {out['results']} further "
                      f"results and no error ({'still running' if th.is_alive() else 'ended'})")
    return False, f"error surfaced after {out['results']} results"


def _arbitrary_values(sch):
    """Real pool, real threads, identity function; the inputs are arbitrary objects, the one the model names is None."""
    import importlib
    import sedpack.io.itertools.lazy_pool as lp
    lp = importlib.reload(lp)
    T, n = sch["T"], sch["n"]
    inputs = [("value", i) for i in range(n)]
    if sch.get("none_input") is not None and sch["none_input"] < n:
        inputs[sch["none_input"]] = None
    try:
        with lp.LazyPool(T) as pool:
            got = list(pool.imap_unordered(lambda v: v, iter(inputs)))
    except Exception as exc:  # noqa: BLE001
        return True, f"real LazyPool({T}) over inputs {inputs} with the identity function raised {type(exc).__name__}: {str(exc)[:80]}"
    if sorted(map(repr, got)) != sorted(map(repr, inputs)):
        return True, f"real LazyPool({T}) over inputs {inputs} yielded {got}"
    return False, "every input value came back exactly once"


def replay(case):
    common.import_sedpack()
    sch = case["schedule"]
    kind = case["kind"]
    if kind == "failure-deferred":
        return _deferred_failure(sch)
    if kind == "pool-raises-without-failure" or sch.get("none_input") is not None:
        return _arbitrary_values(sch)
    attempts = []
    for attempt in range(4):
        s2 = dict(sch)
        if attempt > 0:
            s2["order"] = []  # free-running after the gated attempt
        r = pocomp.replay_schedule(s2)
        attempts.append({k: r.get(k) for k in ("hung", "leaked_workers", "raised", "deviation", "order_followed")} | {"emitted": len(r["emitted"])})
        n = sch["n"]
        early = sch.get("early_exit_after")
        if kind.startswith("deadlock") and (r["hung"] or r["leaked_workers"]):
            return True, f"real LazyPool with real threads: hung={r['hung']} leaked_workers={r['leaked_workers']} ({attempts})"
        if kind == "not-exactly-once" and not r["hung"] and r["raised"] is None and early is None and sorted(r["emitted"]) != list(range(n)):
            return True, f"real LazyPool yielded {sorted(r['emitted'])} for inputs 0..{n - 1}"
        if kind == "failure-not-surfaced" and not r["hung"] and r["raised"] is None and sch.get("failing_input") is not None \
                and 0 <= sch["failing_input"] < n:
            return True, f"real LazyPool ended normally although input {sch['failing_input']} failed; yielded {sorted(r['emitted'])}"
        if kind.startswith("pool-not-reusable") and (r.get("pool_state_ok") is False or r.get("foreign_exception")):
            return True, (f"real LazyPool with real threads following the schedule: pool left in a state that cannot be reused "
                          f"(state ok: {r.get('pool_state_ok')}); exception reaching the caller: {r.get('foreign_exception')}")
        if kind.startswith("pool-not-reusable") or kind.startswith("read-ahead"):
            ok, detail = _reuse_and_readahead(sch)
            if not ok:
                return True, detail
    return False, f"not reproduced in {len(attempts)} runs of the real pool: {attempts}"


def _reuse_and_readahead(sch):
    import importlib
    import sedpack.io.itertools.lazy_pool as lp
    lp = importlib.reload(lp)
    T, n = sch["T"], sch["n"]
    pulled = [0]
    worst = [0]

    def src():
        for i in range(max(n, 4 * T + 8)):
            pulled[0] += 1
            yield i
    pool = lp.LazyPool(T)
    got = 0
    try:
        with pool:
            for _ in pool.imap_unordered(lambda v: v, src()):
                worst[0] = max(worst[0], pulled[0] - got)
                got += 1
                if sch.get("early_exit_after") and got == sch["early_exit_after"]:
                    if sch.get("consumer_raises"):
                        raise pocomp.ConsumerError()
                    break
    except Exception:  # noqa: BLE001
        pass
    if worst[0] - 1 > 2 * T + 3:
        return False, f"real pool pulled {worst[0]} inputs ahead of the consumer (T={T})"
    try:
        with pool:
            again = sorted(pool.imap_unordered(lambda v: v, range(3)))
        if again != [0, 1, 2]:
            return False, f"second use of the pool yielded {again}"
    except AssertionError as exc:
        return False, f"the pool cannot be reused: AssertionError {exc}"
    return True, "reusable"
