"""C07 Unreadable shards surface as errors: never a hang, never silent truncation.

(A) symx on the real Python iteration code (vtlib/iterscen.py): the decoder raises for one shard (which one is a
    solver-driven choice over all shards: first / middle / last), file_parallelism and all random states are
    symbolic, shuffle on/off, every interface; obligation: the consumer observes an exception - the pass must not
    end normally and must not run forever (per-path watchdog).
(B) the shuffled concurrent path runs on the real LazyPool: its behaviour under a failing mapped function for ALL
    interleavings is the pocomp query set of C13 (variant 'fail'), re-run here.
(C) real decoders + real LazyPool/threads + real native extension (rebuilt from /repo/rust): finite fork over
    damage kind (deleted / emptied / garbage) x position (first / middle / last) x interface x shuffle x
    parallelism under a watchdog.  This grounds (A)'s premise ("the decoder raises, with whatever exception type the
    real decoder uses") and covers the Rust reader end to end.  [finite fork; concrete]
"""
from __future__ import annotations

import os
import threading
import types

from .. import common, fillerlab, iterscen, par, rustlab
from ..common import Result, Violation
from ..symx import CexFound, ConcreteEngine, Inconclusive, Stats, explore
from . import c13

PROP = "C07"
FUNCS = [
    "sedpack.io.dataset_iteration:DatasetIteration.as_numpy_iterator",
    "sedpack.io.dataset_iteration:DatasetIteration.as_numpy_iterator_concurrent",
    "sedpack.io.dataset_iteration:DatasetIteration.as_numpy_iterator_async",
    "sedpack.io.dataset_iteration:RustGenerator._single_iter",
    "sedpack.io.itertools.itertools:round_robin",
    "sedpack.io.itertools.itertools:shuffle_buffer",
    "sedpack.io.itertools.lazy_pool:LazyPool.imap_unordered",
    "sedpack.io.itertools.lazy_pool:Collector.run",
    "sedpack.io.flatbuffer.iterate:IterateShardFlatBuffer.iterate_shard",
    "sedpack.io.npz.iterate_npz:IterateShardNP.iterate_shard",
]
IFACES = ["numpy", "concurrent", "async", "rust", "tfdataset"]


def scenario(e, cfg, built=None):
    common.import_sedpack()
    own = built is None
    ctx = common.scratch_dir("vt07_") if own else None
    tmp = ctx.__enter__() if own else None
    try:
        if own:
            built = iterscen.build(tmp, cfg["layout"])
        d, table, written = built
        iface = cfg["iface"]
        paths = [str(d.path / s.file_infos[0].file_path) for s in d.shard_info_iterator("train")]
        S = len(paths)
        victim = paths[e.choice("damaged_shard", S)]
        shuffled = bool(cfg["shuffled"])
        N = len(written["train"])
        shuffle = e.fresh_int("shuffle", 1, N + 1) if shuffled else 0
        T = e.fresh_int("T", 1, S + 1)
        got = []
        try:
            for tok in iterscen.stream(e, d, table, iface, split="train", shuffle=shuffle, T=T, repeat=False, fail={victim}):
                got.append(tok)
        except CexFound:
            raise
        except Exception as exc:  # noqa: BLE001 - the consumer sees an error: what the property demands
            e.prove(True, "error surfaced")
            return dict(iface=iface, raised=type(exc).__name__, after=len(got))
        pos = "first" if victim == paths[0] else "last" if victim == paths[-1] else "middle"
        e.fail(f"{iface}/{cfg['layout']} shuffled={shuffled}: the pass ended NORMALLY with {len(got)} of {N} examples although the "
               f"{pos} shard is unreadable", dict(kind=f"{iface}-silent-truncation"))
    finally:
        if own:
            ctx.__exit__(None, None, None)


def _cell(cell):
    common.import_sedpack()
    if cell.get("pocomp"):
        return c13.run_config(cell["pocomp"])
    if cell.get("real"):
        return real_sweep(cell)
    if cell.get("mirx"):
        return mirx_fail(cell)
    with common.scratch_dir("vt07_") as tmp:
        built = iterscen.build(tmp, cell["layout"])
        return explore(lambda e: scenario(e, cell, built))


# ---- (C) real decoders / real threads / real native extension ---------------------------------------
def damage(path, kind):
    if kind == "deleted":
        os.unlink(path)
    elif kind == "emptied":
        open(path, "wb").close()
    else:
        open(path, "wb").write(b"\x07garbage that is neither a flatbuffer nor a zip archive nor compressed data " * 3)


def run_with_watchdog(fn, seconds=15.0):
    box = {}

    def target():
        try:
            box["value"] = fn()
        except BaseException as exc:  # noqa: BLE001
            box["error"] = exc
    th = threading.Thread(target=target, daemon=True)
    th.start()
    th.join(seconds)
    if th.is_alive():
        return "hang", None
    if "error" in box:
        return "raised", box["error"]
    return "ended", box["value"]


def real_case(ft, compression, kind, pos, iface, shuffle, T, ext=None):
    """Returns None if fine, else a description of the violation."""
    import sedpack.io.dataset_iteration as DI
    from .. import iterlab
    with common.scratch_dir("vt07r_") as tmp:
        d = iterlab.build_dataset(tmp / "ds", ft=ft, shard_sizes=[2, 2, 2, 2], compression=compression)
        paths = [d.path / s.file_infos[0].file_path for s in d.shard_info_iterator("train")]
        victim = {"first": paths[0], "middle": paths[1], "last": paths[-1]}[pos]
        damage(victim, kind)
        kw = dict(split="train", repeat=False, shuffle=shuffle)

        def go():
            if iface == "numpy":
                return [int(x["a"][0]) for x in d.as_numpy_iterator(**kw)]
            if iface == "concurrent":
                return [int(x["a"][0]) for x in d.as_numpy_iterator_concurrent(file_parallelism=T, **kw)]
            if iface == "async":
                import asyncio

                async def run():
                    return [int(x["a"][0]) async for x in d.as_numpy_iterator_async(file_parallelism=T, **kw)]
                return asyncio.run(run())
            if iface == "rust":
                with iterlab.patched(DI, _sedpack_rs=ext):
                    return [int(x["a"][0]) for x in d.as_numpy_iterator_rust(file_parallelism=T, **kw)]
            raise AssertionError(iface)
        outcome, val = run_with_watchdog(go)
        if outcome == "raised":
            return None
        what = "blocked for more than 15 s (hang)" if outcome == "hang" else f"ended normally with {len(val)} of 8 examples"
        return f"{iface} [{ft}/{compression or 'none'}] shuffle={shuffle} file_parallelism={T}: {kind} {pos} shard -> {what}"


def real_sweep(cell):
    st = Stats()
    ext = None
    if "rust" in cell["ifaces"]:
        ext, info = rustlab.build_extension()
    for (ft, comp) in cell["formats"]:
        for iface in cell["ifaces"]:
            if iface == "rust" and (ft != "fb" or comp not in ("", "LZ4", "GZIP", "ZLIB")):
                continue
            if iface == "async" and ft not in ("fb", "npz"):
                continue
            for kind in ("deleted", "emptied", "garbage"):
                for pos in ("first", "middle", "last"):
                    for shuffle in cell["shuffles"]:
                        for T in cell["Ts"]:
                            if iface == "numpy" and T != cell["Ts"][0]:
                                continue
                            st.paths += 1
                            st.proves += 1
                            bad = real_case(ft, comp, kind, pos, iface, shuffle, T, ext)
                            if bad is None:
                                st.proved += 1
                                st.concrete_proves += 1
                            else:
                                hang = "hang" in bad
                                st.cex.append(dict(msg=bad, model={}, info=dict(
                                    kind=f"real-{iface}-{'hang' if hang else 'silent-truncation'}",
                                    case=dict(ft=ft, compression=comp, kind=kind, pos=pos, iface=iface, shuffle=shuffle, T=T))))
    return st


def mirx_fail(cell):
    """Rust reader protocol from the MIR of the current sources (see C15: a Kahn network, one schedule decides all timings):
    the mapped function panics on one item (= an unreadable shard): next() must panic for the consumer before or at that
    item's turn - never return None early, never block; after drop no worker is left blocked."""
    from .. import mirx
    st = Stats()
    mir, info = rustlab.emit_mir()
    fns = mirx.functions(mir)
    N, TM = cell["N"], cell["T"]
    for n in range(1, N + 1):
        for T in range(1, TM + 1):
            for j in range(n):
                st.paths += 1
                st.proves += 1
                try:
                    r = mirx.run_protocol(fns, n, T, n + 2, fail_item=j)
                except Inconclusive as inc:
                    st.inconclusive.append(f"mirx n={n} T={T} fail={j}: {inc}")
                    continue
                res = r["results"]
                ok = bool(res) and isinstance(res[-1], tuple) and res[-1][0] == "PANIC" and res[:-1] == [("res", i) for i in range(len(res) - 1)] \
                    and len(res) - 1 <= j and r["outcome"] == "done"
                if ok:
                    st.proved += 1
                else:
                    what = "blocks forever" if r["outcome"] != "done" else f"next() returned {res}"
                    st.cex.append(dict(msg=f"native reader protocol (MIR): {n} shards, {T} threads, shard #{j} unreadable (worker panics): {what} "
                                           f"instead of raising", model={}, info=dict(kind="rust-protocol-" + ("hang" if r["outcome"] != "done" else "silent-truncation"),
                                                                                     case=dict(ft="fb", compression="", kind="deleted", pos=("first" if j == 0 else "last" if j == n - 1 else "middle"),
                                                                                               iface="rust", shuffle=0, T=T))))
    return st


def tf_pipeline_problems():
    """as_tfdataset on tfrec: the recorded tf.data pipeline must read EXACTLY the selected shard paths (an op that globs
    or skips unreadable files would drop a missing shard silently) and must not ignore errors."""
    import sedpack.io.dataset_iteration as DI
    from .. import iterlab
    problems = []
    with common.scratch_dir("vt07t_") as tmp:
        d, table, written = iterscen.build(tmp, "short-last")
        d.dataset_structure.shard_file_type = "tfrec"
        want = [str(d.path / s.file_infos[0].file_path) for s in d.shard_info_iterator("train")]
        for shuffle in (0, 3):
            rec = iterlab.RecTF()
            with iterlab.patched(DI, tf=rec, get_from_tfrecord=lambda desc: ("decode", len(desc))):
                ds = d.as_tfdataset("train", repeat=False, shuffle=shuffle, batch_size=0)
            if ds.source != "from_tensor_slices":
                problems.append(f"shuffle={shuffle}: the shard paths enter the pipeline through tf.data.Dataset.{ds.source} (file patterns "
                                f"are matched against existing files: a deleted shard would be skipped silently)")
            elif sorted(ds.payload) != sorted(want):
                problems.append(f"shuffle={shuffle}: the pipeline reads {len(ds.payload)} paths, {len(want)} shards are selected")
            for name, a, k in ds.ops:
                if name in ("ignore_errors", "filter") or "ignore_errors" in str(k):
                    problems.append(f"shuffle={shuffle}: the pipeline contains {name} (errors of unreadable shards are swallowed)")
    return problems


def real_tf_case():
    """Real TensorFlow, real tfrec files: a deleted shard must raise in as_tfdataset (shuffled and unshuffled)."""
    problems = []
    for shuffle in (0, 5):
        for pos in (0, -1):
            with common.scratch_dir("vt07tf_") as tmp:
                d = fillerlab.make_dataset(tmp / "ds", ft="tfrec", eps=2)
                with d.filler() as f:
                    for v in range(8):
                        f.write_example(values=fillerlab.example(v), split="train")
                paths = [d.path / s.file_infos[0].file_path for s in d.shard_info_iterator("train")]
                os.unlink(paths[pos])
                try:
                    got = [int(x["a"][0]) for x in d.as_tfdataset("train", repeat=False, shuffle=shuffle, batch_size=0).as_numpy_iterator()]
                    problems.append(f"as_tfdataset(tfrec, shuffle={shuffle}) with a deleted shard ended normally with {len(got)} of 8 examples")
                except Exception:  # noqa: BLE001
                    pass
    return problems


def cells(tier):
    out = []
    layouts = ["short-last", "singles"] + (["four-shards", "nested"] if tier == "thorough" else [])
    for iface in IFACES:
        for layout in layouts:
            for shuffled in (0, 1):
                if shuffled and iface in ("concurrent", "tfdataset", "async") and layout == "short-last" and tier == "quick":
                    continue
                if iface == "tfdataset" and shuffled:
                    continue
                out.append(dict(iface=iface, layout=layout, shuffled=shuffled))
    pc = [dict(T=1, nmax=4, variant="fail"), dict(T=2, nmax=2, variant="fail")] if tier == "quick" else \
         [dict(T=1, nmax=6, variant="fail"), dict(T=2, nmax=3, variant="fail"), dict(T=3, nmax=1, variant="fail")]
    out += [dict(pocomp=c) for c in pc]
    out += [dict(mirx=1, N=(5 if tier == "quick" else 8), T=(4 if tier == "quick" else 6))]
    if tier == "quick":
        out += [dict(real=1, formats=[("fb", "")], ifaces=["rust"], shuffles=[0], Ts=[1, 2, 5]),
                dict(real=1, formats=[("fb", "")], ifaces=["concurrent"], shuffles=[0, 3], Ts=[1, 2]),
                dict(real=1, formats=[("npz", "")], ifaces=["concurrent", "numpy"], shuffles=[0, 3], Ts=[2]),
                dict(real=1, formats=[("fb", "GZIP")], ifaces=["numpy", "async"], shuffles=[0, 3], Ts=[2])]
    else:
        fbs = [("fb", c) for c in ("", "GZIP", "LZ4", "ZLIB", "BZ2", "LZMA", "ZSTD")]
        out += [dict(real=1, formats=[f], ifaces=["rust", "concurrent", "numpy", "async"], shuffles=[0, 3], Ts=[1, 2, 5]) for f in fbs]
        out += [dict(real=1, formats=[("npz", c)], ifaces=["concurrent", "numpy", "async"], shuffles=[0, 3], Ts=[1, 2, 5]) for c in ("", "ZIP")]
    return out


def run(tier, seed):
    common.import_sedpack()
    cs = cells(tier)
    st, per_cell, errors = par.run_cells(_cell, cs)
    viols, seen = [], set()
    for c in st.cex:
        info = c.get("info") or {}
        kind = info.get("kind", c["msg"][:40])
        sig = f"{PROP}:{kind}"
        if "schedule" in info:  # from pocomp
            sig = f"{PROP}:lazy-pool-{info['kind']}"
        if sig in seen:
            continue
        seen.add(sig)
        if "schedule" in info:
            viols.append(Violation(sig, f"shuffled concurrent reading (LazyPool): {c['msg']}", dict(mode="pocomp", kind=info["kind"], schedule=info["schedule"])))
        elif "case" in info:
            viols.append(Violation(sig, c["msg"], dict(mode="real", case=info["case"])))
        else:
            head = c["msg"].split(":")[0].split(" ")[0]
            iface, _, layout = head.partition("/")
            viols.append(Violation(sig, f"{c['msg']} (model {c['model']})", dict(mode="symx", model=c["model"], cfg=dict(
                iface=iface, layout=layout or "singles", shuffled=int("shuffled=True" in c["msg"])))))
    tfp = tf_pipeline_problems()
    if tfp:
        viols.append(Violation("C07:tfrec-pipeline-may-skip-unreadable-shards", "as_tfdataset (tfrec): " + tfp[0], dict(mode="tf")))
    return Result(
        property_id=PROP, engine="symx + pocomp (+ finite fork on the real decoders / native extension)",
        explanation="(A) bounded symbolic execution with z3 of the real Python iteration code with a decoder that raises for one "
                    "solver-chosen shard (all positions), symbolic parallelism / shuffle / random states: on every path the "
                    "consumer must observe an exception (no normal end, no non-termination). (B) all interleavings of the real "
                    "LazyPool with a failing mapped function: the pocomp queries (no deadlock, failure surfaces). (C) finite fork "
                    "on the real decoders, real threads and the native extension rebuilt from the current Rust sources: damage "
                    "kind x position x interface x shuffle x parallelism under a watchdog (concrete executions; stated as such).",
        functions=FUNCS,
        bounds=dict(cells=len(cs), symbolic_layouts=sorted({c["layout"] for c in cs if "layout" in c}),
                    pocomp=[c["pocomp"] for c in cs if "pocomp" in c], real=[{k: v for k, v in c.items()} for c in cs if "real" in c][:6]),
        stats=st.as_dict(), samples=st.samples,
        assumptions=["whether every corruption is rejected by a decoder is a premise of the property, not part of it (C confirms it for "
                     "the listed damage kinds)", "ThreadPoolExecutor.map re-raises the exception of the k-th call (library contract)",
                     "contracts of C13 for the lazy pool"],
        outside=["tf.data runtime (tfrec as_tfdataset)", "Rust reader: covered concretely in (C); its protocol under all timings is C15"],
        violations=viols, inconclusive=st.inconclusive, harness_errors=errors,
        twin=dict(obligations_reached=st.proves),
        rule="(A) one evaluation = one explored path; (B) one z3 query over all schedules; (C) one concrete damaged-dataset run",
        evaluations=st.paths + st.proves, distinct_nontrivial=st.paths,
    )


def replay(case):
    common.import_sedpack(need_tf=(case["mode"] == "tf"))
    if case["mode"] == "tf":
        pr = real_tf_case()
        if pr:
            return True, "real TensorFlow run: " + str(pr[:2])
        return False, "real TensorFlow raises for a deleted shard"
    if case["mode"] == "pocomp":
        return c13.replay(dict(kind=case["kind"], schedule=case["schedule"]))
    if case["mode"] == "real":
        c = case["case"]
        ext = rustlab.build_extension()[0] if c["iface"] == "rust" else None
        bad = real_case(c["ft"], c["compression"], c["kind"], c["pos"], c["iface"], c["shuffle"], c["T"], ext)
        return bad is not None, bad or "the real reader raised"
    try:
        scenario(ConcreteEngine(case["model"]), case["cfg"])
    except CexFound as c:
        # confirm on real decoders / threads
        m = case["model"]
        cfg = case["cfg"]
        pos = "first"
        bad = None
        if cfg["iface"] in ("numpy", "concurrent", "async"):
            for pos in ("first", "middle", "last"):
                bad = bad or real_case("fb", "", "deleted", pos, cfg["iface"], 3 if cfg["shuffled"] else 0, int(m.get("T", 1)))
        return True, f"reproduced with concrete values {m}: {c.msg}; real decoders: {bad}"
    return False, "not reproduced"
