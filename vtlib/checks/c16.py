"""C16 Recorded checksums are the standard digests of the exact file bytes.

(a) symx on the real `hash_checksums`: the module globals open/memoryview/bytearray/_get_hash_function
    are bound to abstract stubs: a file of SYMBOLIC size S whose readinto/read returns ANY count allowed by
    the OS contract (short reads), an abstract buffer whose slices are symbolic ranges, recording hash
    objects.  Proved on every path: each hash object is fed ranges that are contiguous, in order and tile
    [0, S) exactly, nothing beyond the bytes actually read; results come back in `hashes` order.
(b) `_get_hash_function(name)` yields the algorithm of that name for all 13 names (anchor on a vector).
(c) the stored tuple of a shard / metadata file is what hash_checksums(final path, configured tuple)
    returns after the file reached its final content (real filler session with a recording stub).
"""
from __future__ import annotations

import hashlib
import typing

import z3

from .. import common, fillerlab, par
from ..common import Result, Violation
from ..symx import Abort, CexFound, ConcreteEngine, Engine, Inconclusive, SymBool, SymInt, explore, z_of

PROP = "C16"
FUNCS = [
    "sedpack.io.utils:hash_checksums",
    "sedpack.io.utils:_get_hash_function",
    "sedpack.io.utils:safe_update_file",
    "sedpack.io.shard.shard:Shard.close",
    "sedpack.io.shard.shard:Shard._compute_file_hash_checksums",
]
ALGS = ["md5", "sha1", "sha224", "sha256", "sha384", "sha512", "sha3_224", "sha3_256", "sha3_384", "sha3_512",
        "xxh32", "xxh64", "xxh128"]


# ---- abstract buffer / file / hash stubs ----------------------------------------------------
class ABuf:
    def __init__(self, n):
        if not isinstance(n, (int, SymInt)):
            raise Inconclusive("bytearray() of something that is not a size")
        self.n = n  # may be symbolic (e.g. sized after the file)
        self.content = None  # (file offset, count) of the last fill


class AView:
    """memoryview over an ABuf restricted to [lo, hi)."""

    def __init__(self, buf, lo=0, hi=None):
        self.buf, self.lo, self.hi = buf, lo, (buf.n if hi is None else hi)

    def __getitem__(self, sl):
        if not isinstance(sl, slice) or sl.step not in (None, 1):
            raise Inconclusive("buffer indexing other than a contiguous slice")
        lo = self.lo if sl.start is None else self.lo + sl.start
        hi = self.hi if sl.stop is None else self.lo + sl.stop
        return AView(self.buf, lo, hi)

    def length(self):
        return self.hi - self.lo

    def __len__(self):
        n = self.hi - self.lo
        return int(n)  # a symbolic length realises here (bounded by the engine's realisation cap)

    def span(self):
        """(file offset or None if it reaches beyond the filled part, length) as z3 terms + validity condition"""
        return self.lo, self.hi


class AChunk:
    """bytes returned by file.read(): a range of the file."""

    def __init__(self, e, off, k, fid=None):
        self.e, self.off, self.k, self.fid = e, off, k, fid

    def __bool__(self):
        return bool(self.k > 0)

    def __eq__(self, o):
        if isinstance(o, (bytes, bytearray)) and len(o) == 0:
            return self.k == 0
        raise Inconclusive("comparison of file data with non-empty bytes")

    def __ne__(self, o):
        r = self.__eq__(o)
        return ~r if isinstance(r, SymBool) else (not r)

    def __len__(self):
        return self.k


def harness(e, cfg):
    """cfg['mode']:
       single    - one call on a file of symbolic size
       interfere - a second call on ANOTHER file runs (in a second thread of the real program: here inline, which is the
                   schedule 'A is pre-empted, B runs to completion, A resumes') at a symbolic point between two of A's
                   file/hash operations; both results are checked
       rewrite   - the file is hashed, replaced by other content (any size, ANY stat result: the OS contract does not
                   tie st_size/st_mtime to content), and hashed again; the second result must be of the second content
    """
    common.import_sedpack()
    import sedpack.io.utils as U
    max_reads = cfg["max_reads"]
    algs = tuple(cfg["algs"])
    mode = cfg.get("mode", "single")
    hs = []
    opened = []
    files = {}  # path -> current version record
    interference = dict(budget=1 if mode == "interfere" else 0, running=False, result=None, done=False)

    def new_version(path, tag):
        S = e.fresh_int(f"S{tag}", 0, None)
        files[path] = dict(fid=f"{path}#{tag}", S=S, tag=tag, stat={})
        return files[path]

    def maybe_interfere(where):
        if interference["budget"] <= 0 or interference["running"]:
            return
        if not e.choice(f"B_runs_{where}", 2):
            return
        interference["budget"] -= 1
        interference["running"] = True
        try:
            interference["result"] = U.hash_checksums(file_path="/vt/other", hashes=algs)
            interference["done"] = True
        finally:
            interference["running"] = False

    class F:
        def __init__(self, rec):
            self.rec = rec
            self.pos = 0
            self.reads = 0
            self.who = "B" if interference["running"] else "A"

        def __enter__(self):
            return self

        def __exit__(self, *a):
            return False

        def close(self):
            pass

        def fileno(self):
            return 1000 + self.rec["tag"]

        def _next(self, cap):
            if self.reads >= max_reads:
                raise Abort()  # unwinding bound: paths needing more reads are outside the claim (S bounded by it)
            self.reads += 1
            remaining = self.rec["S"] - self.pos
            if remaining <= 0:
                return self.pos, 0
            if not (cap > 0):
                return self.pos, 0  # zero-length buffer: the OS reads nothing
            k = e.fresh_int(f"k{self.rec['tag']}_{self.reads}", 1, None)
            e.assume(k <= cap)
            e.assume(k <= remaining)
            off = self.pos
            self.pos = self.pos + k
            return off, k

        def readinto(self, view):
            if not isinstance(view, AView):
                raise Inconclusive("readinto() into an unknown buffer type")
            if self.who == "A":
                maybe_interfere(f"before_read{self.reads + 1}")
            off, k = self._next(view.length())
            if not (isinstance(k, int) and k == 0):
                # file offset of buffer index 0, filled up to index, whose bytes
                view.buf.content = (off - view.lo, k + view.lo, self.rec["fid"])
            if self.who == "A":
                maybe_interfere(f"after_read{self.reads}")
            return k

        def read(self, size=-1):
            if isinstance(size, int) and size < 0:
                raise Inconclusive("read() of the whole file at once is not modelled (unbounded)")
            off, k = self._next(size)
            return AChunk(e, off, k, self.rec["fid"])

    class H:
        def __init__(self, name):
            self.name = name
            self.ranges = []  # (file offset, length, ok-condition, file identity)
            self.finished = False
            self.who = "B" if interference["running"] else "A"
            self.epoch = len(opened)

        def update(self, chunk):
            if self.finished:
                raise Inconclusive("update after hexdigest")
            if isinstance(chunk, AChunk):
                self.ranges.append((chunk.off, chunk.k, True, chunk.fid))
            elif isinstance(chunk, AView):
                base, filled, fid = chunk.buf.content if chunk.buf.content else (0, 0, None)
                # bytes [lo, hi) of the buffer correspond to file [base+lo, base+hi) iff hi <= filled index
                self.ranges.append((base + chunk.lo, chunk.hi - chunk.lo, chunk.hi <= filled, fid))
            else:
                raise Inconclusive(f"hash update with {type(chunk).__name__}")
            if self.who == "A":
                maybe_interfere(f"after_update{len(self.ranges)}_{self.name}")

        def hexdigest(self):
            self.finished = True
            return ("hex", self)

        def digest(self):
            raise Inconclusive("digest() instead of hexdigest()")

    def fake_open(path, mode="r", buffering=-1, **kw):
        opened.append((str(path), mode))
        if "b" not in mode or "r" not in mode:
            raise Inconclusive(f"file opened with mode {mode}")
        if str(path) not in files:
            raise Inconclusive(f"opened a file it was not given: {path}")
        return F(files[str(path)])

    def get_hash(name):
        h = H(name)
        hs.append(h)
        return h

    class FakeStat:
        """st_size is the size of the current content; every other field is an arbitrary integer per file version."""

        def __init__(self, rec):
            self._rec = rec

        def __getattr__(self, name):
            if not name.startswith("st_"):
                raise AttributeError(name)
            if name == "st_size":
                return self._rec["S"]
            if name not in self._rec["stat"]:
                self._rec["stat"][name] = e.fresh_int(f"{name}_{self._rec['tag']}", 0, None)
            return self._rec["stat"][name]

    def rec_of(p):
        if isinstance(p, int):
            for r in files.values():
                if 1000 + r["tag"] == p:
                    return r
        if str(p) in files:
            return files[str(p)]
        raise Inconclusive(f"stat of something that is not the file: {p}")

    class FakeOsPath:
        @staticmethod
        def getsize(p):
            return rec_of(p)["S"]

        @staticmethod
        def getmtime(p):
            return FakeStat(rec_of(p)).st_mtime_ns

        def __getattr__(self, name):
            raise Inconclusive(f"os.path.{name} in hash_checksums")

    class FakeOs:
        path = FakeOsPath()

        @staticmethod
        def stat(p, *a, **k):
            return FakeStat(rec_of(p))

        @staticmethod
        def fstat(fd):
            return FakeStat(rec_of(fd))

        @staticmethod
        def fspath(p):
            return str(p)

        def __getattr__(self, name):
            raise Inconclusive(f"os.{name} in hash_checksums")

    saved = {k: U.__dict__.get(k, None) for k in ("open", "memoryview", "bytearray", "_get_hash_function", "os")}
    swapped = {}
    for k, v in list(U.__dict__.items()):
        # buffers that live at module level are shared by every call (and thread): model them as ONE abstract buffer
        if isinstance(v, (memoryview, bytearray)):
            swapped[k] = v
            U.__dict__[k] = AView(ABuf(len(v)))
        cc = getattr(v, "cache_clear", None)
        if callable(cc) and getattr(v, "__module__", None) == U.__name__:
            cc()  # a memo table must not survive from one explored path to the next; within a path it is part of the code
    if "os" in U.__dict__:
        U.os = FakeOs()  # the file's size / stat, if asked for, are symbolic
    U.open = fake_open
    U.memoryview = lambda b: AView(b) if isinstance(b, ABuf) else (_ for _ in ()).throw(Inconclusive("memoryview of ?"))
    U.bytearray = ABuf
    U._get_hash_function = get_hash
    calls = []  # (result, file record at the time, label)
    try:
        new_version("/vt/file", 1)
        if mode == "interfere":
            new_version("/vt/other", 9)
        out = U.hash_checksums(file_path="/vt/file", hashes=algs)
        calls.append((out, files["/vt/file"], "the call", 0))
        if mode == "interfere" and interference["done"]:
            calls.append((interference["result"], files["/vt/other"], "the concurrent call on another file", None))
        if mode == "rewrite":
            n_open = len(opened)
            rec2 = new_version("/vt/file", 2)
            out2 = U.hash_checksums(file_path="/vt/file", hashes=algs)
            calls.append((out2, rec2, "the call after the file was replaced", n_open))
    except OSError as exc:
        raise Inconclusive(f"hash_checksums touched the file system in a way the file stub does not model: {exc}") from exc
    finally:
        for k, v in saved.items():
            if v is None:
                U.__dict__.pop(k, None)
            else:
                setattr(U, k, v)
        for k, v in swapped.items():
            U.__dict__[k] = v
        for k, v in list(U.__dict__.items()):
            cc = getattr(v, "cache_clear", None)
            if callable(cc) and getattr(v, "__module__", None) == U.__name__:
                cc()
    # ---- obligations
    e.prove(all(o[0] in ("/vt/file", "/vt/other") for o in opened) and bool(opened),
            f"hash_checksums opened {opened} instead of exactly the file it was given", dict(kind="wrong-file"))
    for out, rec, label, epoch in calls:
        S, fid = rec["S"], rec["fid"]
        e.prove(isinstance(out, tuple) and len(out) == len(algs), f"{label}: {len(out)} digests for {len(algs)} algorithms",
                dict(kind="result-arity", mode=mode))
        for idx, name in enumerate(algs):
            r = out[idx]
            ok = isinstance(r, tuple) and r[0] == "hex" and r[1].name == name
            e.prove(ok, f"{label}: result #{idx} is not the hex digest of algorithm {name} (order/identity of `hashes` not kept)",
                    dict(kind="result-order", mode=mode))
            h = r[1]
            if epoch is not None and epoch > 0:
                e.prove(h.epoch >= epoch, f"{label}: {name} digest returned is one computed BEFORE the file was replaced "
                        "(a result remembered by path/size/mtime is not the digest of the current bytes)",
                        dict(kind="stale-digest", mode=mode))
            off = 0
            for (start, ln, valid, rfid) in h.ranges:
                e.prove(rfid == fid, f"{label}: {name} was fed bytes of {rfid} while hashing {fid} (a buffer or hash object "
                        "shared between calls)", dict(kind="fed-other-file", mode=mode))
                e.prove(valid, f"{label}: {name}: fed buffer bytes beyond what the last read filled", dict(kind="fed-beyond-read", mode=mode))
                e.prove(start == off, f"{label}: {name}: fed a range starting at {start} but {off} bytes were fed so far (gap/overlap)",
                        dict(kind="not-contiguous", mode=mode))
                off = off + ln
            e.prove(off == S, f"{label}: {name}: fed {off} bytes of a file of S bytes (not the complete content)",
                    dict(kind="not-whole-file", mode=mode))
    return dict(algs=list(algs), mode=mode, opened=len(opened))


def _cell(cell):
    return explore(lambda e: harness(e, cell))


# ---- anchors (concrete, not the claim) ---------------------------------------------------------
def anchor_hash_functions():
    """_get_hash_function(name) is the algorithm of that name: compare on a vector with an independent route."""
    import xxhash
    import sedpack.io.utils as U
    vec = bytes(range(256)) * 3 + b"sedpack"
    bad = []
    for name in ALGS:
        h = U._get_hash_function(name)
        h.update(vec)
        got = h.hexdigest()
        if name.startswith("xxh"):
            ref = {"xxh32": xxhash.xxh32_hexdigest, "xxh64": xxhash.xxh64_hexdigest, "xxh128": xxhash.xxh128_hexdigest}[name](vec)
        else:
            ref = getattr(hashlib, name)(vec).hexdigest()
        if got != ref or got != got.lower():
            bad.append((name, got, ref))
    return bad


def anchor_supported_names():
    from sedpack.io.types import HashChecksumT
    return sorted(typing.get_args(HashChecksumT)) == sorted(ALGS)


def anchor_stored_tuple(algs):
    """Shard.close / safe_update_file store hash_checksums(final path, configured tuple) of the final content."""
    import sedpack.io.utils as U
    problems = []
    calls = []
    real = U.hash_checksums

    def rec(file_path, hashes):
        content = open(file_path, "rb").read()
        tok = tuple(f"{a}:{hashlib.sha256(content).hexdigest()[:16]}" for a in hashes)
        calls.append((str(file_path), tuple(hashes), tok))
        return tok

    U.hash_checksums = rec
    try:
        with common.scratch_dir("vt16_") as tmp:
            d = fillerlab.make_dataset(tmp / "ds", eps=2, hashes=algs)
            with d.filler() as f:
                for i in range(5):
                    f.write_example(values=fillerlab.example(i), split="train")

            def expect(path):
                content = open(d.path / path, "rb").read()
                return tuple(f"{a}:{hashlib.sha256(content).hexdigest()[:16]}" for a in algs)
            for si in d.shard_info_iterator("train"):
                fi = si.file_infos[0]
                if tuple(fi.hash_checksums) != expect(fi.file_path):
                    problems.append(f"shard {fi.file_path}: stored {fi.hash_checksums} != digests of final content in configured order")
            sli = d._dataset_info.splits["train"].shard_list_info_file
            if tuple(sli.hash_checksums) != expect(sli.file_path):
                problems.append(f"shards list {sli.file_path}: stored {sli.hash_checksums} != digests of final content")
    finally:
        U.hash_checksums = real
    return problems


def run(tier, seed):
    common.import_sedpack()
    import itertools
    max_reads = 5 if tier == "quick" else 7
    tuples = [()] + [(a,) for a in ALGS]
    if tier == "quick":
        tuples += [("sha256", "md5"), ("md5", "md5"), ("xxh64", "sha3_256", "sha1")]
    else:
        tuples += list(itertools.product(ALGS, repeat=2)) + [("xxh64", "sha3_256", "sha1"), ("sha256", "sha256", "md5"),
                                                             ("xxh128", "xxh32", "xxh128")]
    cs = [dict(algs=list(t), max_reads=max_reads, mode="single") for t in tuples]
    # a second call on another file at any point between two operations of the first; the file replaced between two calls
    multi = [("sha256",), ("xxh64", "md5")] if tier == "quick" else [("sha256",), ("xxh64", "md5"), ("md5", "md5"), ("xxh128", "sha1", "sha3_256")]
    for t in multi:
        cs.append(dict(algs=list(t), max_reads=3 if tier == "quick" else 4, mode="interfere"))
        cs.append(dict(algs=list(t), max_reads=3 if tier == "quick" else 4, mode="rewrite"))
    st, per_cell, errors = par.run_cells(_cell, cs)
    viols, seen = [], set()
    for c in st.cex:
        kind = (c.get("info") or {}).get("kind", c["msg"][:40])
        sig = f"C16:{kind}"
        if sig in seen:
            continue
        seen.add(sig)
        viols.append(Violation(sig, f"{c['msg']} (model {c['model']})",
                               dict(kind="symbolic", model=c["model"], mode=(c.get("info") or {}).get("mode", "single"))))
    bad = anchor_hash_functions()
    if bad:
        viols.append(Violation("C16:wrong-algorithm-for-name", f"_get_hash_function gives a different digest than the standard "
                               f"algorithm of that name: {bad[:2]}", dict(kind="anchor-names")))
    if not anchor_supported_names():
        errors.append("the set of supported algorithm names changed; update ALGS in c16.py")
    for algs in [("md5",), ("sha256", "xxh64"), ("sha1", "sha1", "sha3_224")]:
        for p in anchor_stored_tuple(algs):
            viols.append(Violation("C16:stored-tuple-differs", p, dict(kind="anchor-stored", algs=list(algs))))
            break
    return Result(
        property_id=PROP, engine="symx",
        explanation="Symbolic execution of the real hash_checksums with z3: file size S is an unbounded symbolic integer "
                    "(bounded only by the number of reads explored), every read returns any count allowed by the OS contract "
                    "(1..min(buffer, remaining)); per path z3 proves that every configured hash object was fed exactly the "
                    "ranges tiling [0,S) in order and nothing else, and that results are in `hashes` order.  Algorithm identity "
                    "and the stored tuple are concrete anchors.",
        functions=FUNCS,
        bounds=dict(reads=f"<= {max_reads} read calls (so S <= {max_reads - 1} * 128 KiB; around every buffer multiple below that)",
                    algorithm_tuples=len(cs)),
        stats=st.as_dict(), samples=st.samples,
        assumptions=["hashlib / xxhash compute their standard algorithms", "readinto returns between 1 and min(len(buffer), "
                     "remaining) bytes, 0 only at end of file", "hash objects: update() concatenates"],
        outside=["files needing more read calls than the bound", "hashlib/xxhash internals"],
        violations=viols, inconclusive=st.inconclusive, harness_errors=errors,
        twin=dict(obligations_reached=st.proves),
        rule="one evaluation = one path = one read-count pattern (each read size symbolic) for one algorithm tuple",
        evaluations=st.paths, distinct_nontrivial=st.paths - st.aborted,
    )


def replay(case):
    """Concrete replay on the real function with real files and real hashlib/xxhash (independent digests)."""
    common.import_sedpack()
    import os
    import xxhash
    import sedpack.io.utils as U
    if case.get("kind") == "anchor-names":
        bad = anchor_hash_functions()
        return bool(bad), str(bad)
    if case.get("kind") == "anchor-stored":
        p = anchor_stored_tuple(tuple(case["algs"]))
        return bool(p), str(p)
    def ref_digests(data, algs):
        return tuple(({"xxh32": xxhash.xxh32_hexdigest, "xxh64": xxhash.xxh64_hexdigest, "xxh128": xxhash.xxh128_hexdigest}[a](data)
                      if a.startswith("xxh") else getattr(hashlib, a)(data).hexdigest()) for a in algs)

    if case.get("mode") == "rewrite":
        # the file is hashed, replaced (sizes from the model; the stat fields the model made equal are made equal where
        # the OS lets a process do that: size by content, mtime by utime), and hashed again
        m = case["model"]
        s1, s2 = int(m.get("S1", 0)), int(m.get("S2", 0))
        algs = ("sha256", "md5", "xxh64")
        with common.scratch_dir("vt16r_") as tmp:
            f = tmp / "f"
            for (a, b) in [(s1, s2), (max(s1, 1), max(s1, 1)), (4096, 4096)]:
                d1, d2 = os.urandom(a), os.urandom(b)
                f.write_bytes(d1)
                st = os.stat(f)
                got1 = U.hash_checksums(f, algs)
                f.write_bytes(d2)
                os.utime(f, ns=(st.st_atime_ns, st.st_mtime_ns))
                got2 = U.hash_checksums(f, algs)
                if tuple(got1) != ref_digests(d1, algs):
                    return True, f"first digest wrong for size {a}"
                if tuple(got2) != ref_digests(d2, algs):
                    return True, (f"after replacing the {a}-byte file by {b} other bytes (same mtime), hash_checksums returned "
                                  f"{'the digests of the OLD content' if tuple(got2) == tuple(got1) else 'wrong digests'}")
        return False, "digests follow the content"
    if case.get("mode") == "interfere":
        # the schedule of the counter-example on two real threads: thread A is stopped right after one of its reads,
        # thread B hashes another file completely, A resumes
        import threading
        algs = ("sha256", "md5", "xxh64")
        with common.scratch_dir("vt16r_") as tmp:
            da, db = os.urandom(300_000), os.urandom(200_000)
            (tmp / "a").write_bytes(da)
            (tmp / "b").write_bytes(db)
            real_open = open
            res = {}
            main_thread = threading.get_ident()
            for stop_at in (1, 2, 3):
                class Gate:
                    def __init__(self, f):
                        self.f, self.i = f, 0

                    def __enter__(self):
                        return self

                    def __exit__(self, *a):
                        self.f.close()

                    def readinto(self, mv):
                        n = self.f.readinto(mv)
                        self.i += 1
                        if threading.get_ident() == main_thread and self.i == stop_at:
                            t = threading.Thread(target=lambda: res.__setitem__("b", U.hash_checksums(tmp / "b", algs)))
                            t.start()
                            t.join()
                        return n

                    def read(self, n=-1):
                        out = self.f.read(n)
                        self.i += 1
                        if threading.get_ident() == main_thread and self.i == stop_at:
                            t = threading.Thread(target=lambda: res.__setitem__("b", U.hash_checksums(tmp / "b", algs)))
                            t.start()
                            t.join()
                        return out
                U.open = lambda p, mode="rb", buffering=-1: Gate(real_open(p, mode, buffering=buffering))
                try:
                    ga = U.hash_checksums(tmp / "a", algs)
                finally:
                    del U.open
                if tuple(ga) != ref_digests(da, algs) or tuple(res.get("b", ())) != ref_digests(db, algs):
                    return True, (f"two threads hashing different files: thread A stopped after its read #{stop_at} while thread B "
                                  f"hashed its file; A correct: {tuple(ga) == ref_digests(da, algs)}, B correct: "
                                  f"{tuple(res.get('b', ())) == ref_digests(db, algs)}")
        return False, "concurrent calls on different files gave the standard digests"
    S = int(case["model"].get("S1", case["model"].get("S", 0)))
    sizes = sorted({S, 0, 1, 131071, 131072, 131073, 262144, 262145, 393217})
    problems = []
    with common.scratch_dir("vt16r_") as tmp:
        for size in sizes:
            data = os.urandom(size)
            (tmp / "f").write_bytes(data)
            for algs in [tuple(ALGS), ("md5", "md5"), ("xxh64", "sha3_256", "sha1"), ()]:
                got = U.hash_checksums(tmp / "f", algs)
                ref = tuple(({"xxh32": xxhash.xxh32_hexdigest, "xxh64": xxhash.xxh64_hexdigest,
                              "xxh128": xxhash.xxh128_hexdigest}[a](data) if a.startswith("xxh")
                             else getattr(hashlib, a)(data).hexdigest()) for a in algs)
                if tuple(got) != ref:
                    problems.append((size, algs[:3]))
    # short reads cannot be forced on a regular file; a counter-example that needs them is replayed with a
    # raw file object wrapper that honours the model's read sizes
    if not problems:
        ks = [v for k, v in sorted(case["model"].items()) if k.startswith("k1_") and k[3:].isdigit()]
        data = os.urandom(S)
        with common.scratch_dir("vt16r_") as tmp:
            (tmp / "f").write_bytes(data)
            real_open = open

            class Short:
                def __init__(self, f):
                    self.f, self.i = f, 0

                def __enter__(self):
                    return self

                def __exit__(self, *a):
                    self.f.close()

                def readinto(self, mv):
                    k = ks[self.i] if self.i < len(ks) else len(mv)
                    self.i += 1
                    return self.f.readinto(mv[:k])

                def read(self, n=-1):
                    k = ks[self.i] if self.i < len(ks) else n
                    self.i += 1
                    return self.f.read(min(k, n) if n >= 0 else k)
            U.open = lambda p, mode="rb", buffering=-1: Short(real_open(p, mode, buffering=buffering))
            try:
                got = U.hash_checksums(tmp / "f", ("sha256", "md5"))
            finally:
                del U.open
            if tuple(got) != (hashlib.sha256(data).hexdigest(), hashlib.md5(data).hexdigest()):
                problems.append(("short-reads", S, ks))
    return bool(problems), f"digest mismatch against independent hashlib/xxhash computation for {problems[:4]}"
