"""C16 Recorded checksums are the standard digests of the exact file bytes.

(a) symx on the real `hash_checksums`: the module globals open/memoryview/bytearray/_get_hash_function
    are bound to abstract stubs: a file of SYMBOLIC size S whose readinto/read returns ANY count allowed by
    the OS contract (short reads), an abstract buffer whose slices are symbolic ranges, recording hash
    objects.  Proved on every path: each hash object is fed ranges that are contiguous, in order and tile
    [0, S) exactly, nothing beyond the bytes actually read; results come back in `hashes` order.
(b) `_get_hash_function(name)` yields the algorithm of that name for all 13 names (anchor on a vector).
(c) the stored tuple of a shard / metadata file is what hash_checksums(final path, configured tuple)
    returns after the file reached its final content (real filler session with a recording stub).
"""
from __future__ import annotations

import hashlib
import typing

import z3

from .. import common, fillerlab, par
from ..common import Result, Violation
from ..symx import Abort, CexFound, ConcreteEngine, Engine, Inconclusive, SymBool, SymInt, explore, z_of

PROP = "C16"
FUNCS = [
    "sedpack.io.utils:hash_checksums",
    "sedpack.io.utils:_get_hash_function",
    "sedpack.io.utils:safe_update_file",
    "sedpack.io.shard.shard:Shard.close",
    "sedpack.io.shard.shard:Shard._compute_file_hash_checksums",
]
ALGS = ["md5", "sha1", "sha224", "sha256", "sha384", "sha512", "sha3_224", "sha3_256", "sha3_384", "sha3_512",
        "xxh32", "xxh64", "xxh128"]


# ---- abstract buffer / file / hash stubs ----------------------------------------------------
class ABuf:
    def __init__(self, n):
        if not isinstance(n, (int, SymInt)):
            raise Inconclusive("bytearray() of something that is not a size")
        self.n = n  # may be symbolic (e.g. sized after the file)
        self.content = None  # (file offset, count) of the last fill


class AView:
    """memoryview over an ABuf restricted to [lo, hi)."""

    def __init__(self, buf, lo=0, hi=None):
        self.buf, self.lo, self.hi = buf, lo, (buf.n if hi is None else hi)

    def __getitem__(self, sl):
        if not isinstance(sl, slice) or sl.step not in (None, 1):
            raise Inconclusive("buffer indexing other than a contiguous slice")
        lo = self.lo if sl.start is None else self.lo + sl.start
        hi = self.hi if sl.stop is None else self.lo + sl.stop
        return AView(self.buf, lo, hi)

    def length(self):
        return self.hi - self.lo

    def __len__(self):
        n = self.hi - self.lo
        return int(n)  # a symbolic length realises here (bounded by the engine's realisation cap)

    def span(self):
        """(file offset or None if it reaches beyond the filled part, length) as z3 terms + validity condition"""
        return self.lo, self.hi


class AChunk:
    """bytes returned by file.read(): a range of the file."""

    def __init__(self, e, off, k):
        self.e, self.off, self.k = e, off, k

    def __bool__(self):
        return bool(self.k > 0)

    def __eq__(self, o):
        if isinstance(o, (bytes, bytearray)) and len(o) == 0:
            return self.k == 0
        raise Inconclusive("comparison of file data with non-empty bytes")

    def __ne__(self, o):
        r = self.__eq__(o)
        return ~r if isinstance(r, SymBool) else (not r)

    def __len__(self):
        return self.k


def harness(e, cfg):
    common.import_sedpack()
    import sedpack.io.utils as U
    max_reads = cfg["max_reads"]
    algs = tuple(cfg["algs"])
    S = e.fresh_int("S", 0, None)
    state = dict(pos=0, reads=0, closed=False, opened=[])
    hs = []

    class F:
        def __enter__(self):
            return self

        def __exit__(self, *a):
            state["closed"] = True
            return False

        def close(self):
            state["closed"] = True

        def _next(self, cap):
            if state["reads"] >= max_reads:
                raise Abort()  # unwinding bound: paths needing more reads are outside the claim (S bounded by it)
            state["reads"] += 1
            remaining = S - state["pos"]
            if remaining <= 0:
                return state["pos"], 0
            if not (cap > 0):
                return state["pos"], 0  # zero-length buffer: the OS reads nothing
            k = e.fresh_int(f"k{state['reads']}", 1, None)
            e.assume(k <= cap)
            e.assume(k <= remaining)
            off = state["pos"]
            state["pos"] = state["pos"] + k
            return off, k

        def readinto(self, view):
            if not isinstance(view, AView):
                raise Inconclusive("readinto() into an unknown buffer type")
            off, k = self._next(view.length())
            if not (isinstance(k, int) and k == 0):
                view.buf.content = (off - view.lo, k + view.lo)  # file offset of buffer index 0, filled up to index
            return k

        def read(self, size=-1):
            if isinstance(size, int) and size < 0:
                raise Inconclusive("read() of the whole file at once is not modelled (unbounded)")
            off, k = self._next(size)
            return AChunk(e, off, k)

    class H:
        def __init__(self, name):
            self.name = name
            self.ranges = []  # (file offset, length, ok-condition)
            self.finished = False

        def update(self, chunk):
            if self.finished:
                raise Inconclusive("update after hexdigest")
            if isinstance(chunk, AChunk):
                self.ranges.append((chunk.off, chunk.k, True))
            elif isinstance(chunk, AView):
                base, filled = chunk.buf.content if chunk.buf.content else (0, 0)
                # bytes [lo, hi) of the buffer correspond to file [base+lo, base+hi) iff hi <= filled index
                self.ranges.append((base + chunk.lo, chunk.hi - chunk.lo, chunk.hi <= filled))
            else:
                raise Inconclusive(f"hash update with {type(chunk).__name__}")

        def hexdigest(self):
            self.finished = True
            return ("hex", self)

        def digest(self):
            raise Inconclusive("digest() instead of hexdigest()")

    def fake_open(path, mode="r", buffering=-1, **kw):
        state["opened"].append((str(path), mode))
        if "b" not in mode or "r" not in mode:
            raise Inconclusive(f"file opened with mode {mode}")
        return F()

    def get_hash(name):
        h = H(name)
        hs.append(h)
        return h

    class FakeStat:
        st_size = S

    class FakeOsPath:
        @staticmethod
        def getsize(p):
            return S

        def __getattr__(self, name):
            raise Inconclusive(f"os.path.{name} in hash_checksums")

    class FakeOs:
        path = FakeOsPath()

        @staticmethod
        def stat(p, *a, **k):
            return FakeStat()

        @staticmethod
        def fstat(fd):
            return FakeStat()

        def __getattr__(self, name):
            raise Inconclusive(f"os.{name} in hash_checksums")

    saved = {k: U.__dict__.get(k, None) for k in ("open", "memoryview", "bytearray", "_get_hash_function", "os")}
    if "os" in U.__dict__:
        U.os = FakeOs()  # the file's size, if asked for, is the symbolic S
    U.open = fake_open
    U.memoryview = lambda b: AView(b) if isinstance(b, ABuf) else (_ for _ in ()).throw(Inconclusive("memoryview of ?"))
    U.bytearray = ABuf
    U._get_hash_function = get_hash
    try:
        out = U.hash_checksums(file_path="/vt/file", hashes=algs)
    except OSError as exc:
        raise Inconclusive(f"hash_checksums touched the file system in a way the file stub does not model: {exc}") from exc
    finally:
        for k, v in saved.items():
            if v is None:
                U.__dict__.pop(k, None)
            else:
                setattr(U, k, v)
    if not state["closed"] and state["opened"]:
        pass  # leaking the handle is not part of this property
    # ---- obligations
    e.prove(state["opened"] == [("/vt/file", state["opened"][0][1])] if state["opened"] else False,
            f"hash_checksums opened {state['opened']} instead of exactly the file it was given", dict(kind="wrong-file"))
    e.prove(isinstance(out, tuple) and len(out) == len(algs), f"{len(out)} digests for {len(algs)} algorithms", dict(kind="result-arity"))
    for idx, name in enumerate(algs):
        r = out[idx]
        ok = isinstance(r, tuple) and r[0] == "hex" and r[1].name == name
        e.prove(ok, f"result #{idx} is not the hex digest of algorithm {name} (order/identity of `hashes` not kept)",
                dict(kind="result-order"))
        h = r[1]
        off = 0
        for (start, ln, valid) in h.ranges:
            e.prove(valid, f"{name}: fed buffer bytes beyond what the last read filled", dict(kind="fed-beyond-read"))
            e.prove(start == off, f"{name}: fed a range starting at {start} but {off} bytes were fed so far (gap/overlap)",
                    dict(kind="not-contiguous"))
            off = off + ln
        e.prove(off == S, f"{name}: fed {off} bytes of a file of S bytes (not the complete content)", dict(kind="not-whole-file"))
    return dict(algs=list(algs), reads=state["reads"])


def _cell(cell):
    return explore(lambda e: harness(e, cell))


# ---- anchors (concrete, not the claim) ---------------------------------------------------------
def anchor_hash_functions():
    """_get_hash_function(name) is the algorithm of that name: compare on a vector with an independent route."""
    import xxhash
    import sedpack.io.utils as U
    vec = bytes(range(256)) * 3 + b"sedpack"
    bad = []
    for name in ALGS:
        h = U._get_hash_function(name)
        h.update(vec)
        got = h.hexdigest()
        if name.startswith("xxh"):
            ref = {"xxh32": xxhash.xxh32_hexdigest, "xxh64": xxhash.xxh64_hexdigest, "xxh128": xxhash.xxh128_hexdigest}[name](vec)
        else:
            ref = getattr(hashlib, name)(vec).hexdigest()
        if got != ref or got != got.lower():
            bad.append((name, got, ref))
    return bad


def anchor_supported_names():
    from sedpack.io.types import HashChecksumT
    return sorted(typing.get_args(HashChecksumT)) == sorted(ALGS)


def anchor_stored_tuple(algs):
    """Shard.close / safe_update_file store hash_checksums(final path, configured tuple) of the final content."""
    import sedpack.io.utils as U
    problems = []
    calls = []
    real = U.hash_checksums

    def rec(file_path, hashes):
        content = open(file_path, "rb").read()
        tok = tuple(f"{a}:{hashlib.sha256(content).hexdigest()[:16]}" for a in hashes)
        calls.append((str(file_path), tuple(hashes), tok))
        return tok

    U.hash_checksums = rec
    try:
        with common.scratch_dir("vt16_") as tmp:
            d = fillerlab.make_dataset(tmp / "ds", eps=2, hashes=algs)
            with d.filler() as f:
                for i in range(5):
                    f.write_example(values=fillerlab.example(i), split="train")

            def expect(path):
                content = open(d.path / path, "rb").read()
                return tuple(f"{a}:{hashlib.sha256(content).hexdigest()[:16]}" for a in algs)
            for si in d.shard_info_iterator("train"):
                fi = si.file_infos[0]
                if tuple(fi.hash_checksums) != expect(fi.file_path):
                    problems.append(f"shard {fi.file_path}: stored {fi.hash_checksums} != digests of final content in configured order")
            sli = d._dataset_info.splits["train"].shard_list_info_file
            if tuple(sli.hash_checksums) != expect(sli.file_path):
                problems.append(f"shards list {sli.file_path}: stored {sli.hash_checksums} != digests of final content")
    finally:
        U.hash_checksums = real
    return problems


def run(tier, seed):
    common.import_sedpack()
    import itertools
    max_reads = 5 if tier == "quick" else 7
    tuples = [()] + [(a,) for a in ALGS]
    if tier == "quick":
        tuples += [("sha256", "md5"), ("md5", "md5"), ("xxh64", "sha3_256", "sha1")]
    else:
        tuples += list(itertools.product(ALGS, repeat=2)) + [("xxh64", "sha3_256", "sha1"), ("sha256", "sha256", "md5"),
                                                             ("xxh128", "xxh32", "xxh128")]
    cs = [dict(algs=list(t), max_reads=max_reads) for t in tuples]
    st, per_cell, errors = par.run_cells(_cell, cs)
    viols, seen = [], set()
    for c in st.cex:
        kind = (c.get("info") or {}).get("kind", c["msg"][:40])
        sig = f"C16:{kind}"
        if sig in seen:
            continue
        seen.add(sig)
        viols.append(Violation(sig, f"{c['msg']} (model {c['model']})", dict(kind="symbolic", model=c["model"])))
    bad = anchor_hash_functions()
    if bad:
        viols.append(Violation("C16:wrong-algorithm-for-name", f"_get_hash_function gives a different digest than the standard "
                               f"algorithm of that name: {bad[:2]}", dict(kind="anchor-names")))
    if not anchor_supported_names():
        errors.append("the set of supported algorithm names changed; update ALGS in c16.py")
    for algs in [("md5",), ("sha256", "xxh64"), ("sha1", "sha1", "sha3_224")]:
        for p in anchor_stored_tuple(algs):
            viols.append(Violation("C16:stored-tuple-differs", p, dict(kind="anchor-stored", algs=list(algs))))
            break
    return Result(
        property_id=PROP, engine="symx",
        explanation="Symbolic execution of the real hash_checksums with z3: file size S is an unbounded symbolic integer "
                    "(bounded only by the number of reads explored), every read returns any count allowed by the OS contract "
                    "(1..min(buffer, remaining)); per path z3 proves that every configured hash object was fed exactly the "
                    "ranges tiling [0,S) in order and nothing else, and that results are in `hashes` order.  Algorithm identity "
                    "and the stored tuple are concrete anchors.",
        functions=FUNCS,
        bounds=dict(reads=f"<= {max_reads} read calls (so S <= {max_reads - 1} * 128 KiB; around every buffer multiple below that)",
                    algorithm_tuples=len(cs)),
        stats=st.as_dict(), samples=st.samples,
        assumptions=["hashlib / xxhash compute their standard algorithms", "readinto returns between 1 and min(len(buffer), "
                     "remaining) bytes, 0 only at end of file", "hash objects: update() concatenates"],
        outside=["files needing more read calls than the bound", "hashlib/xxhash internals"],
        violations=viols, inconclusive=st.inconclusive, harness_errors=errors,
        twin=dict(obligations_reached=st.proves),
        rule="one evaluation = one path = one read-count pattern (each read size symbolic) for one algorithm tuple",
        evaluations=st.paths, distinct_nontrivial=st.paths - st.aborted,
    )


def replay(case):
    """Concrete replay on the real function with real files and real hashlib/xxhash (independent digests)."""
    common.import_sedpack()
    import os
    import xxhash
    import sedpack.io.utils as U
    if case.get("kind") == "anchor-names":
        bad = anchor_hash_functions()
        return bool(bad), str(bad)
    if case.get("kind") == "anchor-stored":
        p = anchor_stored_tuple(tuple(case["algs"]))
        return bool(p), str(p)
    S = int(case["model"].get("S", 0))
    sizes = sorted({S, 0, 1, 131071, 131072, 131073, 262144, 262145, 393217})
    problems = []
    with common.scratch_dir("vt16r_") as tmp:
        for size in sizes:
            data = os.urandom(size)
            (tmp / "f").write_bytes(data)
            for algs in [tuple(ALGS), ("md5", "md5"), ("xxh64", "sha3_256", "sha1"), ()]:
                got = U.hash_checksums(tmp / "f", algs)
                ref = tuple(({"xxh32": xxhash.xxh32_hexdigest, "xxh64": xxhash.xxh64_hexdigest,
                              "xxh128": xxhash.xxh128_hexdigest}[a](data) if a.startswith("xxh")
                             else getattr(hashlib, a)(data).hexdigest()) for a in algs)
                if tuple(got) != ref:
                    problems.append((size, algs[:3]))
    # short reads cannot be forced on a regular file; a counter-example that needs them is replayed with a
    # raw file object wrapper that honours the model's read sizes
    if not problems:
        ks = [v for k, v in sorted(case["model"].items()) if k.startswith("k") and k[1:].isdigit()]
        data = os.urandom(S)
        with common.scratch_dir("vt16r_") as tmp:
            (tmp / "f").write_bytes(data)
            real_open = open

            class Short:
                def __init__(self, f):
                    self.f, self.i = f, 0

                def __enter__(self):
                    return self

                def __exit__(self, *a):
                    self.f.close()

                def readinto(self, mv):
                    k = ks[self.i] if self.i < len(ks) else len(mv)
                    self.i += 1
                    return self.f.readinto(mv[:k])

                def read(self, n=-1):
                    k = ks[self.i] if self.i < len(ks) else n
                    self.i += 1
                    return self.f.read(min(k, n) if n >= 0 else k)
            U.open = lambda p, mode="rb", buffering=-1: Short(real_open(p, mode, buffering=buffering))
            try:
                got = U.hash_checksums(tmp / "f", ("sha256", "md5"))
            finally:
                del U.open
            if tuple(got) != (hashlib.sha256(data).hexdigest(), hashlib.md5(data).hexdigest()):
                problems.append(("short-reads", S, ks))
    return bool(problems), f"digest mismatch against independent hashlib/xxhash computation for {problems[:4]}"
