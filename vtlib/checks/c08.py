"""C08 Continued writing is append-only (also the grounding step of C04 and the 'accepts' half of C05).

Real code end to end on a scratch directory with the real fb writer/reader: Dataset.create, Dataset(path),
filler(), DatasetFiller(relative_path_from_split=...), write_multiprocessing(single_process=True),
as_numpy_iterator, check.  Symbolic: examples_per_shard E >= 1 (unbounded) for filler sessions; the history is
a solver-driven finite fork: per session kind in {root, sub-dir a, sub-dir b, nested a/c, multi-writer x2,
multi-writer x1}, target split, n in {1,2}, reopen-or-keep the handle.
"""
from __future__ import annotations

import hashlib
from pathlib import Path

from .. import common, fillerlab, metaoracle, par
from ..common import Result, Violation
from ..symx import CexFound, ConcreteEngine, explore

PROP = "C08"
# sub:train / sub:a/test: a sub-directory whose (last) name equals a split name
KINDS = ["root", "sub:a", "sub:b", "sub:a/c", "multi2", "multi1", "sub:train", "sub:a/test"]
FUNCS = [
    "sedpack.io.dataset:Dataset.create",
    "sedpack.io.dataset:Dataset.__init__",
    "sedpack.io.dataset_writing:DatasetWriting.write_config",
    "sedpack.io.dataset_writing:DatasetWriting.write_multiprocessing",
    "sedpack.io.dataset_writing:DatasetWriting.check",
    "sedpack.io.merge_shard_infos:merge_shard_infos",
    "sedpack.io.shard_file_metadata:ShardsList.load_or_create",
    "sedpack.io.shard_file_metadata:ShardsList.write_config",
    "sedpack.io.dataset_filler:DatasetFiller.__exit__",
    "sedpack.io.dataset_filler:_DatasetFillerContext.close_shard",
    "sedpack.io.dataset_base:DatasetBase._shard_info_iterator",
]


def _feed(dataset_filler, values, split, values2, split2):
    with dataset_filler as f:
        for v in values:
            f.write_example(values=fillerlab.example(v), split=split)
        for v in values2:
            f.write_example(values=fillerlab.example(v), split=split2)
    return (len(values), len(values2))


def _tree_digest(root: Path):
    h = hashlib.sha256()
    for p in sorted(Path(root).rglob("*")):
        h.update(str(p.relative_to(root)).encode())
        if p.is_file():
            h.update(p.read_bytes())
    return h.hexdigest()


def scenario(e, cfg):
    common.import_sedpack()
    from sedpack.io import Dataset
    from sedpack.io.errors import DatasetExistsError
    concrete = e.concrete
    E = e.fresh_int("E", 1, None)
    nxt = 0
    expected = {"train": [], "test": []}
    with common.scratch_dir("vt08_") as tmp:
        # datasets may be configured without any checksum algorithm: nothing may depend on checksums to notice new data
        nc = e.fresh_int("no_checksums", 0, 1)
        if not concrete:
            e.assume(nc == int(bool(cfg.get("no_checksums"))))
        d = fillerlab.make_dataset(tmp / "ds", eps=(E if concrete else cfg.get("eps", 2)), hashes=(() if int(nc) else ("md5",)))
        hist = []
        # the caller may construct all its fillers up-front and use them one after the other (write_multiprocessing does)
        prebuild = bool(cfg["sessions"] > 1 and e.choice("fillers_constructed_up_front", 2))
        plan = []
        for s in range(cfg["sessions"]):
            if s == 0 and "kind0" in cfg:
                kind = KINDS[cfg["kind0"]]
                e.assume(e.fresh_int("kind0", 0, len(KINDS) - 1) == cfg["kind0"])
            else:
                kind = KINDS[e.choice(f"kind{s}", len(KINDS))]
            split = ("train", "test")[e.choice(f"split{s}", 2)]
            n = 1 + e.choice(f"n{s}", cfg.get("nchoices", 2))
            reopen = e.choice(f"reopen{s}", 2) if (s > 0 and not prebuild) else 0
            plan.append((kind, split, n, reopen))
        prebuilt = {}
        if prebuild:
            # something is already committed when the fillers are constructed (they must not work from a snapshot of it)
            with d.filler() as f0:
                f0.write_example(values=fillerlab.example(900), split="train")
                f0.write_example(values=fillerlab.example(901), split="test")
            expected["train"].append(900)
            expected["test"].append(901)
            for s, (kind, split, n, reopen) in enumerate(plan):
                if kind == "root" or kind.startswith("sub:"):
                    rel = None if kind == "root" else Path(kind[4:])
                    prebuilt[s] = fillerlab.open_filler(d, None if concrete else E, relative=rel)
        for s in range(cfg["sessions"]):
            kind, split, n, reopen = plan[s]
            hist.append((kind, split, n, reopen) + (("prebuilt",) if s in prebuilt else ()))
            try:
                if reopen:
                    d = Dataset(d.path)
                vals = list(range(nxt, nxt + n))
                nxt += n
                if kind == "root" or kind.startswith("sub:"):
                    rel = None if kind == "root" else Path(kind[4:])
                    filler = prebuilt[s] if s in prebuilt else fillerlab.open_filler(d, None if concrete else E, relative=rel)
                    ctx = filler.__enter__()
                    for v in vals:
                        ctx.write_example(values=fillerlab.example(v), split=split)
                    filler.__exit__(None, None, None)
                    expected[split] += vals
                else:
                    other = "test" if split == "train" else "train"
                    if kind == "multi2":
                        extra = [nxt, nxt + 1]
                        nxt += 2
                        args = [(vals, split, [], other), ([extra[0]], other, [extra[1]], split)]
                        expected[split] += vals + [extra[1]]
                        expected[other] += [extra[0]]
                    else:
                        args = [(vals, split, [], other)]
                        expected[split] += vals
                    res = d.write_multiprocessing(feed_writer=_feed, custom_arguments=args, single_process=True,
                                                  consistency_check=False)
                    e.prove(res == [(len(a[0]), len(a[2])) for a in args], f"multi-writer results {res} not in argument order",
                            dict(kind="multi-writer-results"))
            except CexFound:
                raise
            except Exception as exc:  # noqa: BLE001
                e.fail(f"session {s} {hist[-1]} after {hist[:-1]} raised {type(exc).__name__}: {str(exc)[:100]}",
                       dict(kind=f"session-raised-{type(exc).__name__}", hist=hist))
            # ---- oracle after the session
            try:
                fresh = Dataset(d.path)
                for sp in ("train", "test"):
                    for handle, who in ((d, "writing handle"), (fresh, "fresh open")):
                        got = sorted(fillerlab.read_split(handle, sp)) if sp in handle._dataset_info.splits else []
                        e.prove(got == sorted(expected[sp]),
                                f"after history {hist}: split {sp} via {who} holds {got}, expected {sorted(expected[sp])}",
                                dict(kind="append-only-violated", hist=hist))
                d.check(show_progressbar=False)
            except CexFound:
                raise
            except Exception as exc:  # noqa: BLE001
                e.fail(f"after history {hist}: reading/check raised {type(exc).__name__}: {str(exc)[:100]}",
                       dict(kind=f"read-or-check-raised-{type(exc).__name__}", hist=hist))
            problems = metaoracle.audit(d) + metaoracle.memory_equals_disk(d)
            e.prove(not problems, f"after history {hist}: metadata not exact: {problems[:2]}",
                    dict(kind="metadata-not-exact", hist=hist))
        # ---- creating where a dataset exists is refused and changes nothing
        before = _tree_digest(d.path)
        refused = False
        # the same directory spelled differently: absolute, relative to the working directory, with redundant components,
        # through the home directory
        import os
        spelling = e.choice("create_path_spelling", 4) if (cfg.get("spellings") or e.concrete) else 0
        cwd, home = os.getcwd(), os.environ.get("HOME")
        try:
            if spelling == 0:
                target = d.path
            elif spelling == 1:
                os.chdir(d.path.parent)
                target = Path(d.path.name)
            elif spelling == 2:
                target = d.path.parent / "." / d.path.name / ".." / d.path.name
            else:
                os.environ["HOME"] = str(d.path.parent)
                target = Path("~") / d.path.name
            try:
                Dataset.create(path=target, metadata=d.metadata, dataset_structure=d.dataset_structure)
            finally:
                os.chdir(cwd)
                if home is not None:
                    os.environ["HOME"] = home
        except DatasetExistsError:
            refused = True
        except Exception as exc:  # noqa: BLE001
            e.fail(f"create over an existing dataset raised {type(exc).__name__} instead of DatasetExistsError",
                   dict(kind="create-wrong-error"))
        e.prove(refused, f"Dataset.create over an existing dataset (path spelling #{spelling}) was not refused", dict(kind="create-not-refused"))
        e.prove(_tree_digest(d.path) == before, "refused Dataset.create changed the directory", dict(kind="create-changed-files"))
        return dict(history=hist)


def _cell(cell):
    return explore(lambda e: scenario(e, cell))


def cells(tier):
    if tier == "quick":
        return ([dict(sessions=2, kind0=k, nchoices=2) for k in range(len(KINDS))] + [dict(sessions=1, nchoices=2, spellings=True)] +
                [dict(sessions=2, kind0=k, nchoices=1, no_checksums=True) for k in range(len(KINDS))])
    return ([dict(sessions=3, kind0=k, nchoices=1) for k in range(len(KINDS))] +
            [dict(sessions=2, kind0=k, nchoices=2) for k in range(len(KINDS))] + [dict(sessions=1, nchoices=2, spellings=True)] +
            [dict(sessions=3, kind0=k, nchoices=1, no_checksums=True) for k in range(len(KINDS))])


def collect(st, prop):
    viols, seen = [], set()
    for c in st.cex:
        kind = (c.get("info") or {}).get("kind", c["msg"][:40])
        sig = f"{prop}:{kind}"
        if sig in seen:
            continue
        seen.add(sig)
        m = c["model"]
        sessions = 1 + max([int(k[4:]) for k in m if k.startswith("kind") and k[4:].isdigit()] or [0])
        viols.append(Violation(sig, f"{c['msg']} (model {m})", dict(model=m, cfg=dict(sessions=sessions, nchoices=2))))
    return viols


def run(tier, seed):
    common.import_sedpack()
    cs = cells(tier)
    st, per_cell, errors = par.run_cells(_cell, cs)
    return Result(
        property_id=PROP, engine="symx",
        explanation="Bounded symbolic execution with z3 of complete writing histories through the public API on real files: "
                    "examples_per_shard is an unbounded symbolic integer for filler sessions, the history (session kinds, splits, "
                    "sizes, reopen-or-keep) is a solver-driven finite fork explored exhaustively within the bound; after every "
                    "session the iterated multiset per split (writing handle and fresh open), check(), and an independent audit "
                    "of the metadata tree are asserted; finally Dataset.create on the existing directory must be refused without "
                    "changing a byte.",
        functions=FUNCS,
        bounds=dict(history_length="2 quick / 3 thorough", kinds=KINDS, n_per_session="1..2", E=">=1 (unbounded; multi-writer "
                    "sessions use the dataset's concrete examples_per_shard=2)", cells=len(cs)),
        stats=st.as_dict(), samples=st.samples,
        assumptions=["z3 sound", "one live handle at a time", "single_process=True stands for the worker pool (C09 covers the pool)",
                     "scratch file system behaves"],
        outside=["histories longer than the bound", "npz/tfrec formats (metadata code is format independent)"],
        violations=collect(st, PROP), inconclusive=st.inconclusive, harness_errors=errors,
        twin=dict(obligations_reached=st.proves),
        rule="one evaluation = one explored path = one history x E-class; non-trivial = reached the post-session obligations",
        evaluations=st.paths, distinct_nontrivial=st.paths - st.aborted,
    )


def replay(case):
    e = ConcreteEngine(case["model"])
    try:
        scenario(e, case["cfg"])
    except CexFound as c:
        return True, f"reproduced on the real code with {case['model']}: {c.msg}"
    return False, "the concrete run satisfied the oracle"
