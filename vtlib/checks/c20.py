"""C20 Reopen / relocate / version gate.

(a) Version gate (solver-proper): the real DatasetBase._load and the semver library's own pure-Python
    comparison run on a recorded version whose major/minor/patch are UNBOUNDED symbolic naturals.
    Proved on every path: load is refused  <=>  (a,b,c) >lex running version.
(b) Relocation (finite fork over target locations, real code end to end, real files): a dataset written at
    one location is moved/copied to another (nested, unicode, blank-containing, reached by a relative path),
    then opened, checked, iterated and continued; results must equal those of the dataset that stayed, and
    no document may mention any component of the original location.
(c) Description round trip (finite fork, concrete anchor): every compression/format/algorithm literal, unicode
    text and nested JSON custom metadata at dataset/attribute/shard level survive dump + load.
pydantic-core's JSON (de)serialisation is compiled code and is not executed symbolically (stated).
"""
from __future__ import annotations

import json
import os
import shutil
import types
import typing

import numpy as np
from pathlib import Path

import z3

from .. import common, fillerlab, par
from ..common import Result, Violation
from ..symx import And, CexFound, ConcreteEngine, Engine, Or, SymBool, explore, z_of

PROP = "C20"
FUNCS = [
    "sedpack.io.dataset_base:DatasetBase._load",
    "sedpack.io.dataset_base:DatasetBase.__init__",
    "sedpack.io.dataset:Dataset.__init__",
    "sedpack.io.dataset_writing:DatasetWriting.write_config",
    "sedpack.io.utils:safe_update_file",
    "semver.version:Version.compare",
]


def gate_scenario(e, cfg):
    common.import_sedpack()
    import semver
    import sedpack
    import sedpack.io.dataset_base as DB
    from sedpack.io.metadata import DatasetInfo
    cur = semver.Version.parse(sedpack.__version__)
    a = e.fresh_int("major", 0, None)
    b = e.fresh_int("minor", 0, None)
    c = e.fresh_int("patch", 0, None)
    if e.concrete:
        # replay: the real thing, a real file with the concrete version string
        with common.scratch_dir("vt20_") as tmp:
            d = fillerlab.make_dataset(tmp / "ds")
            p = d.path / "dataset_info.json"
            doc = json.loads(p.read_text())
            doc["metadata"]["sedpack_version"] = f"{a}.{b}.{c}"
            p.write_text(json.dumps(doc))
            newer = (a, b, c) > (cur.major, cur.minor, cur.patch)
            try:
                DB.DatasetBase._load(d.path)
                refused = False
            except ValueError:
                refused = True
            e.prove(refused == newer, f"version {a}.{b}.{c} vs running {cur}: refused={refused}, newer={newer}",
                    dict(kind="gate"))
        return None
    info = DatasetInfo()
    info.metadata.sedpack_version = "SYMBOLIC-VERSION"
    real_parse = semver.Version.parse.__func__

    def parse(cls, version, *k, **kw):
        if version == "SYMBOLIC-VERSION":
            v = object.__new__(semver.Version)
            v._major, v._minor, v._patch, v._prerelease, v._build = a, b, c, None, None
            return v
        return real_parse(cls, version, *k, **kw)

    old_parse = semver.Version.__dict__["parse"]
    old_DI = DB.DatasetInfo
    old_cfg = DB.DatasetBase.__dict__["_get_config_path"]
    semver.Version.parse = classmethod(parse)
    DB.DatasetInfo = types.SimpleNamespace(model_validate_json=lambda txt: info)
    DB.DatasetBase._get_config_path = staticmethod(
        lambda path, relative=False: types.SimpleNamespace(read_text=lambda encoding=None: "{}"))
    newer = Or(a > cur.major, And(a == cur.major, b > cur.minor), And(a == cur.major, b == cur.minor, c > cur.patch))
    try:
        try:
            DB.DatasetBase._load(Path("/vt/x"))
            loaded = True
        except ValueError:
            loaded = False
    finally:
        semver.Version.parse = old_parse
        DB.DatasetInfo = old_DI
        DB.DatasetBase._get_config_path = old_cfg
    if loaded:
        e.prove(~newer if isinstance(newer, SymBool) else (not newer),
                f"a dataset recorded by a NEWER version than {cur} was loaded", dict(kind="gate-loads-newer"))
    else:
        e.prove(newer, f"a dataset recorded by the same or an OLDER version than {cur} was refused", dict(kind="gate-refuses-older"))
    return dict(loaded=loaded)


def version_sweep():
    """Concrete boundary sweep with real dataset_info.json files: components around the running version and with more
    digits (9/10/11/99/100), so that a comparison that is not numeric (strings, floats) is noticed too."""
    import semver
    import sedpack
    import sedpack.io.dataset_base as DB
    cur = semver.Version.parse(sedpack.__version__)
    base = (cur.major, cur.minor, cur.patch)
    cands = set()
    for i in range(3):
        for v in {max(base[i] - 1, 0), base[i], base[i] + 1, 9, 10, 11, 99, 100, base[i] * 10, base[i] * 10 + 1}:
            t = list(base)
            t[i] = v
            cands.add(tuple(t))
            t2 = [0, 0, 0]
            t2[i] = v
            cands.add(tuple(t2))
    problems = []
    with common.scratch_dir("vt20v_") as tmp:
        d = fillerlab.make_dataset(tmp / "ds")
        p = d.path / "dataset_info.json"
        doc = json.loads(p.read_text())
        for t in sorted(cands):
            doc["metadata"]["sedpack_version"] = "%d.%d.%d" % t
            p.write_text(json.dumps(doc))
            try:
                DB.DatasetBase._load(d.path)
                refused = False
            except ValueError:
                refused = True
            if refused != (t > base):
                problems.append(f"dataset recorded by version {'%d.%d.%d' % t}, running {cur}: refused={refused} but newer={t > base}")
    return problems


# ---- relocation --------------------------------------------------------------------------------
TARGETS = ["moved", "deep/er/nested", "mit blank", "ünï-çødé-データ", "rel:sub/dir", "copy:cp", "relup:../elsewhere/up there",
           # a directory whose name starts with '~' but names no user, reached by a relative path (no home expansion applies)
           "rel:~ archive ü/nested dir", "~moved 2024/ds"]


def _fingerprint(d):
    out = {}
    for sp in ("train", "test"):
        if sp in d._dataset_info.splits:
            out[sp] = fillerlab.read_split(d, sp)
    return out


def relocation_case(target):
    """Returns a list of problems (empty = fine)."""
    from sedpack.io import Dataset
    problems = []
    with common.scratch_dir("vt20m_") as tmp:
        origin = tmp / "ORIGINTOKENaaa" / "ORIGINTOKENbbb"
        origin.parent.mkdir(parents=True)
        d = fillerlab.make_dataset(origin, eps=2, hashes=("sha256", "xxh64"))
        with d.filler() as f:
            for i in range(5):
                f.write_example(values=fillerlab.example(i), split="train", custom_metadata={"k": i // 3})
        from sedpack.io.dataset_filler import DatasetFiller
        with DatasetFiller(d, relative_path_from_split=Path("sub/x")) as f:
            for i in range(5, 8):
                f.write_example(values=fillerlab.example(i), split="test")
        want = _fingerprint(d)
        info_before = d._dataset_info.model_dump_json()
        # no document mentions the original location
        for p in origin.rglob("*.json"):
            if "ORIGINTOKEN" in p.read_text():
                problems.append(f"{p.relative_to(origin)} stores a component of the dataset's absolute location")
        mode, _, name = target.rpartition(":")
        if mode == "relup":
            name = name.split("/", 2)[2]
        dest = tmp / "elsewhere" / name
        dest.parent.mkdir(parents=True, exist_ok=True)
        if mode == "copy":
            shutil.copytree(origin, dest)
        else:
            shutil.move(str(origin), str(dest))
        cwd = os.getcwd()
        try:
            if mode == "rel":
                os.chdir(tmp / "elsewhere")
                open_path = Path(name)
            elif mode == "relup":
                (tmp / "workdir" / "below").mkdir(parents=True)
                os.chdir(tmp / "workdir" / "below")
                open_path = Path("..") / ".." / "elsewhere" / name  # reached through a relative path that climbs up
            else:
                open_path = dest
            d2 = Dataset(open_path)
            if d2._dataset_info.model_dump_json() != info_before:
                problems.append("description after relocation differs")
            d2.check(show_progressbar=False)
            got = _fingerprint(d2)
            if got != want:
                problems.append(f"iteration after relocation gives {got}, expected {want}")
            with d2.filler() as f:
                for i in range(8, 11):
                    f.write_example(values=fillerlab.example(i), split="train")
            d2.check(show_progressbar=False)
            d3 = Dataset(open_path)
            got = _fingerprint(d3)
            if sorted(got.get("train", [])) != sorted(want["train"] + [8, 9, 10]) or got.get("test") != want["test"]:
                problems.append(f"after continued writing at the new location: {got}")
            if mode != "copy" and origin.exists():
                problems.append("continued writing re-created the original location")
            if mode == "copy" and _fingerprint(Dataset(origin)) != want:
                problems.append("writing into the copy changed the original")
        except Exception as exc:  # noqa: BLE001
            problems.append(f"{type(exc).__name__}: {str(exc)[:120]}")
        finally:
            os.chdir(cwd)
    return problems


# ---- description round trip (anchor) -----------------------------------------------------------
def roundtrip_cases():
    from sedpack.io.types import CompressionT, HashChecksumT, ShardFileTypeT
    nested = {"s": "ünï \"q\" \\ \n", "n": [1, 2.5, -3, 1e300, True, False, None], "m": {"a": {"b": [{}]}}, "": "empty key"}
    cases = []
    for comp in typing.get_args(CompressionT):
        for ft in typing.get_args(ShardFileTypeT):
            cases.append(dict(compression=comp, shard_file_type=ft, hashes=("sha256",), md=nested))
    algs = typing.get_args(HashChecksumT)
    cases.append(dict(compression="", shard_file_type="fb", hashes=tuple(algs), md={}))
    cases.append(dict(compression="", shard_file_type="fb", hashes=(), md={"x": [1, [2, [3]]]}))
    cases.append(dict(compression="", shard_file_type="npz", hashes=("md5", "md5"), md=nested))
    return cases


def roundtrip_case(c):
    from sedpack.io import Attribute, Dataset, DatasetStructure, Metadata
    problems = []
    with common.scratch_dir("vt20r_") as tmp:
        ds = DatasetStructure(
            saved_data_description=[Attribute(name="ä b", dtype="int32", shape=(2,), custom_metadata=c["md"]),
                                    Attribute(name="a", dtype="int32", shape=(2,))],
            compression=c["compression"], examples_per_shard=3, shard_file_type=c["shard_file_type"],
            hash_checksum_algorithms=c["hashes"])
        md = Metadata(description="désc ☃ \"x\"", dataset_license="L", dataset_version="2.0.0", download_from="u",
                      custom_metadata=c["md"])
        try:
            d = Dataset.create(path=tmp / "ds", metadata=md, dataset_structure=ds)
            d2 = Dataset(tmp / "ds")
        except Exception as exc:  # noqa: BLE001
            return [f"{c['compression']}/{c['shard_file_type']}: {type(exc).__name__}: {str(exc)[:100]}"]
        if d2._dataset_info != d._dataset_info:
            problems.append(f"description differs after reopen for {c['compression']}/{c['shard_file_type']}/{c['hashes'][:2]}")
        if d2.dataset_structure.hash_checksum_algorithms != tuple(c["hashes"]):
            problems.append("algorithm tuple changed")
        # the writer amends the description of the existing dataset (dataset and attribute level) and saves it: a later open
        # reconstructs the amended description, whether or not examples were written in that session
        for how in ("write_config", "empty-filler-session", "filler-session"):
            if how == "filler-session":
                from sedpack.io.shard.shard_writer_flatbuffer import ShardWriterFlatBuffer
                if c["shard_file_type"] != "fb" or c["compression"] not in ShardWriterFlatBuffer.supported_compressions():
                    continue  # tfrec needs the TF runtime; the description code is format independent
            try:
                w = Dataset(tmp / "ds")
                m2 = w.metadata.model_copy(deep=True)
                m2.description = f"amended ✓ {how}"
                m2.custom_metadata = {"stage": how, "review": {"by": "Žofie", "score": 0.75, "issues": [], "final": False, "none": None}}
                w.metadata = m2
                w.dataset_structure.saved_data_description[0].custom_metadata = {"unit": "µV", "scale": [1, 1000], "how": how}
                held = w._dataset_info.model_dump(mode="json")
                if how == "write_config":
                    w.write_config(updated_infos=[])
                elif how == "empty-filler-session":
                    with w.filler():
                        pass
                else:
                    with w.filler() as f:
                        f.write_example(values={"ä b": np.array([1, 2], np.int32), "a": np.array([3, 4], np.int32)}, split="train")
                    held = w._dataset_info.model_dump(mode="json")
                got = Dataset(tmp / "ds")._dataset_info.model_dump(mode="json")
                if got != held:
                    diff = [k for k in ("metadata", "dataset_structure", "splits") if got.get(k) != held.get(k)]
                    problems.append(f"{c['compression']}/{c['shard_file_type']}: description amended and saved through {how}: a fresh open "
                                    f"does not reconstruct what the writer held (differs in {diff}; on disk description "
                                    f"{got['metadata'].get('description')!r})")
            except Exception as exc:  # noqa: BLE001
                problems.append(f"{c['compression']}/{c['shard_file_type']}: amending through {how} raised {type(exc).__name__}: {str(exc)[:100]}")
    return problems


def _cell(cell):
    return explore(lambda e: gate_scenario(e, cell))


def run(tier, seed):
    common.import_sedpack()
    st, per_cell, errors = par.run_cells(_cell, [dict(kind="gate")], procs=1)
    viols, seen = [], set()
    for c in st.cex:
        kind = (c.get("info") or {}).get("kind", "gate")
        sig = f"C20:{kind}"
        if sig not in seen:
            seen.add(sig)
            viols.append(Violation(sig, f"{c['msg']} (model {c['model']})", dict(kind="gate", model=c["model"])))
    # shard-level custom metadata + relocation: finite forks, real code
    targets = TARGETS
    reloc = {}
    for t in targets:
        pr = relocation_case(t)
        reloc[t] = pr
        if pr:
            viols.append(Violation("C20:relocation", f"relocation to {t!r}: {pr[0]}", dict(kind="relocation", target=t)))
            break
    vs = version_sweep()
    if vs:
        viols.append(Violation("C20:version-gate-concrete", vs[0], dict(kind="version-sweep")))
    rt_bad = []
    rcases = roundtrip_cases()
    for c in rcases:
        pr = roundtrip_case(c)
        if pr:
            rt_bad.append(pr[0])
    if rt_bad:
        viols.append(Violation("C20:description-roundtrip", rt_bad[0], dict(kind="roundtrip")))
    return Result(
        property_id=PROP, engine="symx",
        explanation="(a) symbolic execution with z3 of the real version gate (DatasetBase._load + the semver library's own "
                    "comparison) on a recorded version with unbounded symbolic major/minor/patch: refusal <=> strictly newer is "
                    "proved on every path. (b),(c) are finite forks over relocation targets and description literals executed "
                    "concretely on the real code (stated as such; pydantic-core JSON code is compiled and not symbolically executed).",
        functions=FUNCS,
        bounds=dict(version="major, minor, patch in N (unbounded); pre-release/build tags outside",
                    relocation_targets=targets, roundtrip_cases=len(rcases)),
        stats=st.as_dict(), samples=st.samples + [dict(relocation={k: (v or 'ok') for k, v in reloc.items()})],
        assumptions=["z3 sound", "semver.Version.parse maps 'a.b.c' to (a,b,c) (its own tests)", "shutil.move/copytree copy bytes"],
        outside=["pre-release / build metadata in versions", "symbolic JSON documents (pydantic-core is compiled)",
                 "moves across file systems with different semantics"],
        violations=viols, inconclusive=st.inconclusive, harness_errors=errors,
        twin=dict(obligations_reached=st.proves),
        rule="gate: one evaluation = one path of the comparison code (a class of version triples); relocation/roundtrip: one "
             "evaluation = one concrete case",
        evaluations=st.paths + len(targets) + len(rcases), distinct_nontrivial=st.paths + len(targets) + len(rcases),
        extra=dict(relocation_cases=len(targets), roundtrip_cases=len(rcases)),
    )


def replay(case):
    common.import_sedpack()
    if case["kind"] == "gate":
        e = ConcreteEngine(case["model"])
        try:
            gate_scenario(e, {})
        except CexFound as c:
            return True, f"reproduced with a real dataset_info.json: {c.msg}"
        return False, "real load behaved as expected"
    if case["kind"] == "version-sweep":
        pr = version_sweep()
        return bool(pr), str(pr[:3])
    if case["kind"] == "relocation":
        pr = relocation_case(case["target"])
        return bool(pr), str(pr)
    bad = [p for c in roundtrip_cases() for p in roundtrip_case(c)]
    return bool(bad), str(bad[:3])
