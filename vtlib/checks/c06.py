"""C06 A writer crash never corrupts or loses committed data.

Real writer code on a real scratch directory under the fsx interposer (vtlib/fsx.py): safe_update_file,
ShardsList.write_config, close_shard, DatasetFiller.__exit__/_update_infos, write_config, merge_shard_infos,
write_multiprocessing(single_process=True), the fb and npz shard writers, Shard.close.  The crash index k over the
numbered file-system effects of the crashing session (open-for-write, every write call, close, replace, mkdir) is a
solver-driven fork that is explored EXHAUSTIVELY for the bounded session; which prefix of in-flight data survives
(none / half / all but one byte) is a second fork.  After the crash - which is also the state a concurrent reader sees
at that instant - the real reader code must: find every metadata file under its final name to be a complete valid
document, open the dataset, iterate every split without error, find every reachable shard matching its recorded
checksums, and return all examples of earlier completed sessions and only whole examples that were actually written.
"""
from __future__ import annotations

import json
import shutil
from pathlib import Path

from .. import common, fillerlab, fsx, par
from ..common import Result, Violation
from ..symx import CexFound, ConcreteEngine, explore

PROP = "C06"
FUNCS = [
    "sedpack.io.utils:safe_update_file",
    "sedpack.io.shard_file_metadata:ShardsList.write_config",
    "sedpack.io.dataset_filler:_DatasetFillerContext.close_shard",
    "sedpack.io.dataset_filler:DatasetFiller.__exit__",
    "sedpack.io.dataset_filler:DatasetFiller._update_infos",
    "sedpack.io.dataset_writing:DatasetWriting.write_config",
    "sedpack.io.dataset_writing:DatasetWriting.write_multiprocessing",
    "sedpack.io.merge_shard_infos:merge_shard_infos",
    "sedpack.io.shard.shard_writer_flatbuffer:ShardWriterFlatBuffer.close",
    "sedpack.io.shard.shard_writer_np:ShardWriterNP.close",
    "sedpack.io.shard.shard:Shard.close",
    "sedpack.io.dataset:Dataset.create",
]
KINDS = ["first-session", "continue-root", "continue-sub-new", "continue-sub-used", "multi-writer"]
TORN = ["none", "half", "almost"]


def _feed(dataset_filler, values, split):
    with dataset_filler as f:
        for v in values:
            f.write_example(values=fillerlab.example(v), split=split)
    return len(values)


def committed_state(tmp: Path, ft: str, kind: str):
    """Completed earlier sessions (no interposer).  Returns (dataset path, committed ids)."""
    from sedpack.io.dataset_filler import DatasetFiller
    if kind == "first-session":
        (tmp / "ds").mkdir()
        return tmp / "ds", {"train": [], "test": []}
    d = fillerlab.make_dataset(tmp / "ds", ft=ft, eps=2)
    with d.filler() as f:
        for v in (0, 1, 2):
            f.write_example(values=fillerlab.example(v), split="train")
        f.write_example(values=fillerlab.example(3), split="test")
    with DatasetFiller(d, relative_path_from_split=Path("used")) as f:
        f.write_example(values=fillerlab.example(4), split="train")
    return d.path, {"train": [0, 1, 2, 4], "test": [3]}


def crashing_session(root: Path, ft: str, kind: str):
    """The session that may die.  Returns ids it tries to write per split."""
    from sedpack.io import Dataset
    from sedpack.io.dataset_filler import DatasetFiller
    new = {"train": [10, 11, 12], "test": [13]}
    if kind == "first-session":
        d = fillerlab.make_dataset(root, ft=ft, eps=2)
    else:
        d = Dataset(root)
    if kind in ("first-session", "continue-root"):
        with d.filler() as f:
            for v in new["train"]:
                f.write_example(values=fillerlab.example(v), split="train")
            f.write_example(values=fillerlab.example(13), split="test")
    elif kind in ("continue-sub-new", "continue-sub-used"):
        rel = Path("fresh") if kind == "continue-sub-new" else Path("used")
        with DatasetFiller(d, relative_path_from_split=rel) as f:
            for v in new["train"]:
                f.write_example(values=fillerlab.example(v), split="train")
            f.write_example(values=fillerlab.example(13), split="test")
    else:
        d.write_multiprocessing(feed_writer=_feed, custom_arguments=[([10, 11, 12], "train"), ([13], "test")],
                                single_process=True, consistency_check=False)
    return new


def inspect(root: Path, committed, attempted, torn_files):
    """What a reader (or the restarted user) finds.  Returns a list of problems."""
    from sedpack.io import Dataset
    from sedpack.io.metadata import DatasetInfo
    from sedpack.io.shard_file_metadata import ShardsList
    import sedpack.io.utils as U
    problems = []
    for p in sorted(Path(root).rglob("*.json")):
        if p.name.startswith("update_"):
            continue  # temporary name, not yet published
        rel = p.relative_to(root)
        try:
            text = p.read_text()
            json.loads(text)
            (DatasetInfo if p.name == "dataset_info.json" else ShardsList).model_validate_json(text)
        except Exception as exc:  # noqa: BLE001
            problems.append(f"metadata file {rel} is not a complete valid document ({type(exc).__name__}); content: {p.read_bytes()[:40]!r}")
    if not (Path(root) / "dataset_info.json").is_file():
        if any(committed.values()):
            problems.append("dataset_info.json is gone although earlier sessions were committed")
        return problems
    if problems:
        return problems
    try:
        d = Dataset(root)
        for split in ("train", "test"):
            if split not in d._dataset_info.splits:
                if committed[split]:
                    problems.append(f"split {split} vanished from the description; committed examples {committed[split]} are lost")
                continue
            for s in d.shard_info_iterator(split):
                fi = s.file_infos[0]
                if str(Path(root) / fi.file_path) in torn_files:
                    problems.append(f"reachable shard {fi.file_path} was still being written at the crash (torn file is listed)")
                real = U.hash_checksums(Path(root) / fi.file_path, d.dataset_structure.hash_checksum_algorithms)
                if tuple(real) != tuple(fi.hash_checksums):
                    problems.append(f"reachable shard {fi.file_path} does not match its recorded checksums")
            got = fillerlab.read_split(d, split)
            missing = [v for v in committed[split] if v not in got]
            foreign = [v for v in got if v not in committed[split] and v not in attempted[split]]
            dup = [v for v in set(got) if got.count(v) > 1]
            if missing:
                problems.append(f"split {split}: committed examples {missing} are no longer returned (got {got})")
            if foreign or dup:
                problems.append(f"split {split}: iteration returns examples that were never written / duplicates: {foreign} {dup}")
    except Exception as exc:  # noqa: BLE001
        problems.append(f"opening / iterating after the crash raised {type(exc).__name__}: {str(exc)[:100]}")
    return problems


def scenario(e, cfg, base=None):
    common.import_sedpack()
    ft, kind = cfg["ft"], cfg["kind"]
    own = base is None
    ctx = common.scratch_dir("vt06_") if own else None
    tmp = ctx.__enter__() if own else None
    try:
        if own:
            with common.scratch_dir("vt06b_") as btmp:
                root0, committed = committed_state(btmp, ft, kind)
                pristine = tmp / "pristine"
                shutil.copytree(root0, pristine)
            # number of effects of an uncrashed session
            work = tmp / "work"
            shutil.copytree(pristine, work)
            with fsx.Fsx(work) as f0:
                crashing_session(work, ft, kind)
            base = (pristine, committed, f0.counter, tmp)
        pristine, committed, total, tmpdir = base
        k = e.choice("crash_at_effect", total + 1)  # k == total: the session completes (no crash)
        torn = TORN[e.choice("surviving_prefix", len(TORN))]
        work = Path(tmpdir) / "work"
        shutil.rmtree(work, ignore_errors=True)
        shutil.copytree(pristine, work)
        attempted = {"train": [10, 11, 12], "test": [13]}
        fx = fsx.Fsx(work, crash_at=(k if k < total else None), torn=torn)
        crashed = False
        try:
            with fx:
                crashing_session(work, ft, kind)
        except BaseException as exc:  # noqa: BLE001 - the dying writer; whatever unwinds is irrelevant
            if isinstance(exc, (CexFound,)):
                raise
            crashed = fx.dead
            if not fx.dead:
                e.fail(f"{ft}/{kind}: the session raised {type(exc).__name__} without any crash: {str(exc)[:90]}", dict(kind="session-raised"))
        at = fx.log[k] if k < len(fx.log) else ("end",)
        problems = inspect(work, committed, attempted, fx.torn_files)
        e.prove(not problems, f"{ft}/{kind}: writer dies at effect #{k} {at[1:] if len(at) > 1 else at} (in-flight data kept: {torn}): {problems[:2]}",
                dict(kind=_kind_of(problems), at=list(at)))
        if not crashed and k >= total:
            got = fillerlab.read_split(__import__("sedpack.io", fromlist=["Dataset"]).Dataset(work), "train")
            e.prove(sorted(got) == sorted(committed["train"] + attempted["train"]), f"{ft}/{kind}: uncrashed session lost data: {got}",
                    dict(kind="uncrashed-session-wrong"))
        return dict(kind=kind, k=k, effect=list(at), torn=torn)
    finally:
        if own:
            ctx.__exit__(None, None, None)


class ReaderView:
    """A reader whose file reads happen at two instants of the writer's timeline: reads number < switch_at see the
    directory as it was at instant k1, later reads see it at instant k2 >= k1."""

    def __init__(self, view_root, snap_dir, k1, k2, switch_at):
        self.view_root, self.snap_dir = str(view_root), str(snap_dir)
        self.k1, self.k2, self.switch_at = k1, k2, switch_at
        self.reads = 0

    def _map(self, file):
        import os
        p = os.fspath(file) if not isinstance(file, int) else None
        if p is None or not os.path.abspath(p).startswith(self.view_root):
            return file
        k = self.k1 if self.reads < self.switch_at else self.k2
        self.reads += 1
        return os.path.join(self.snap_dir, str(k)) + os.path.abspath(p)[len(self.view_root):]

    def __enter__(self):
        import builtins
        import io
        self._saved = (builtins.open, io.open)
        real = io.open

        def opener(file, mode="r", *a, **k):
            return real(self._map(file) if not any(c in mode for c in "wax+") else file, mode, *a, **k)
        builtins.open = opener
        io.open = opener
        return self

    def __exit__(self, *a):
        import builtins
        import io
        builtins.open, io.open = self._saved
        return False


def reader_scenario(e, cfg, base):
    """Concurrent reader at two instants (thorough tier)."""
    from sedpack.io import Dataset
    common.import_sedpack()
    pristine, committed, total, tmpdir, snap_dir, full_reads = base
    k1 = e.choice("reader_instant_1", total + 1)
    if cfg.get("full_advance"):
        k2 = k1 + e.choice("reader_advance", total + 1 - k1)
    else:  # quick tier: stay at the instant, move one effect ahead, or see the finished session
        k2 = [k1, min(k1 + 1, total), total][e.choice("reader_advance_kind", 3)]
    switch = 1 + e.choice("reads_before_advance", max(full_reads, 1))
    attempted = {"train": [10, 11, 12], "test": [13]}
    view = Path(tmpdir) / "view"
    what = f"{cfg['ft']}/{cfg['kind']}: reader does its first {switch} file reads at writer instant {k1}, the rest at instant {k2}"
    if not (Path(snap_dir) / str(k1) / "dataset_info.json").is_file():
        return dict(skipped="no dataset yet at the first instant")
    rv = ReaderView(view, snap_dir, k1, k2, switch)
    try:
        with rv:
            d = Dataset(view)
            got = {}
            for split in ("train", "test"):
                if split in d._dataset_info.splits:
                    got[split] = fillerlab.read_split(d, split)
    except Exception as exc:  # noqa: BLE001
        e.fail(f"{what}: raised {type(exc).__name__}: {str(exc)[:100]}", dict(kind="concurrent-reader-fails"))
    for split in ("train", "test"):
        g = got.get(split, [])
        missing = [v for v in committed[split] if v not in g]
        foreign = [v for v in g if v not in committed[split] and v not in attempted[split]]
        dup = [v for v in set(g) if g.count(v) > 1]
        e.prove(not missing, f"{what}: committed examples {missing} of {split} not returned (got {g})", dict(kind="concurrent-reader-loses-committed-data"))
        e.prove(not foreign and not dup, f"{what}: {split} returns unwritten/duplicate examples {foreign} {dup}", dict(kind="concurrent-reader-foreign-examples"))
    return dict(k1=k1, k2=k2, switch=switch, reads=rv.reads)


def _reader_cell(cell):
    common.import_sedpack()
    from sedpack.io import Dataset
    with common.scratch_dir("vt06r_") as tmp:
        with common.scratch_dir("vt06b_") as btmp:
            root0, committed = committed_state(btmp, cell["ft"], cell["kind"])
            work = tmp / "work"
            shutil.copytree(root0, work)
        snap = tmp / "snap"
        snap.mkdir()
        fx = fsx.Fsx(work)
        fx.snapshot_to = str(snap)
        with fx:
            crashing_session(work, cell["ft"], cell["kind"])
        shutil.copytree(work, snap / str(fx.counter))
        # how many file reads a full pass takes (at the final state)
        rv = ReaderView(tmp / "view", snap, fx.counter, fx.counter, 10 ** 9)
        with rv:
            d = Dataset(tmp / "view")
            for split in d._dataset_info.splits:
                fillerlab.read_split(d, split)
        base = (None, committed, fx.counter, tmp, snap, rv.reads)
        return explore(lambda e: reader_scenario(e, cell, base))


def _kind_of(problems):
    if not problems:
        return "ok"
    p = problems[0]
    if "not a complete valid document" in p:
        return "metadata-file-torn"
    if "committed examples" in p or "vanished" in p or "gone" in p:
        return "committed-data-lost"
    if "checksums" in p or "torn file" in p:
        return "reachable-shard-incomplete"
    if "never written" in p:
        return "foreign-or-duplicate-examples"
    return "reader-fails-after-crash"


def _cell(cell):
    common.import_sedpack()
    if cell.get("reader"):
        return _reader_cell(cell)
    with common.scratch_dir("vt06_") as tmp:
        with common.scratch_dir("vt06b_") as btmp:
            root0, committed = committed_state(btmp, cell["ft"], cell["kind"])
            pristine = tmp / "pristine"
            shutil.copytree(root0, pristine)
        work = tmp / "work"
        shutil.copytree(pristine, work)
        with fsx.Fsx(work) as f0:
            crashing_session(work, cell["ft"], cell["kind"])
        base = (pristine, committed, f0.counter, tmp)
        st = explore(lambda e: scenario(e, cell, base))
        st.samples = st.samples[:2] + [dict(effects_of_an_uncrashed_session=f0.counter, first_effects=f0.log[:12])]
        return st


def cells(tier):
    fts = ["fb", "npz"]
    out = [dict(ft=ft, kind=k) for ft in fts for k in KINDS]
    if tier == "thorough":
        out += [dict(ft=ft, kind=k, reader=True) for ft in fts for k in KINDS]
        # every pair of instants k1 <= k2 (quadratic in the number of effects): the two fb histories that rewrite existing lists
        out += [dict(ft="fb", kind=k, reader=True, full_advance=True) for k in ("continue-root", "continue-sub-used")]
    else:
        out += [dict(ft="fb", kind="continue-root", reader=True)]
    return out


def run(tier, seed):
    common.import_sedpack()
    cs = cells(tier)
    st, per_cell, errors = par.run_cells(_cell, cs)
    viols, seen = [], set()
    for c in st.cex:
        info = c.get("info") or {}
        kind = info.get("kind", c["msg"][:40])
        sig = f"{PROP}:{kind}"
        if sig in seen:
            continue
        seen.add(sig)
        head = c["msg"].split(":")[0]
        ft, _, k = head.partition("/")
        is_reader = kind.startswith("concurrent-reader")
        viols.append(Violation(sig, f"{c['msg']}", dict(model=c["model"], cfg=dict(ft=ft, kind=k, reader=is_reader,
                                                                                      full_advance=("reader_advance" in c["model"])))))
    return Result(
        property_id=PROP, engine="symx + fsx interposer",
        explanation="The solver drives an exhaustive fork over the crash point (every numbered file-system effect of the crashing "
                    "session, including positions inside the shard file and inside every metadata temporary file) and over the "
                    "surviving prefix of in-flight writes; the real writer runs on a real directory until it is killed at that "
                    "effect (later effects of the unwinding dead process are dropped), then the real reader code and independent "
                    "document/digest checks inspect the directory.  The same states are what a concurrent reader sees at that "
                    "instant.  [finite fork: exhaustive for the bounded session, not sampled]",
        functions=FUNCS,
        bounds=dict(session="4 examples into 2 splits (3 shards) after 2 committed sessions", kinds=KINDS, formats=["fb", "npz"],
                    torn_prefixes=TORN, crash_points="all effects of the session (30-70 per cell, see samples)"),
        stats=st.as_dict(), samples=st.samples,
        assumptions=["process crash, operating system stays up (no power loss: no fsync is claimed)", "os.replace is atomic",
                     "a file open for writing at the crash holds an arbitrary prefix of what was written (three prefixes explored)"],
        outside=["TFRecord writer: its C++ file I/O is invisible to the interposer (metadata protocol identical)",
                 "a reader whose successive reads happen at DIFFERENT instants of the writer's timeline", "real multi-process pool (C09)"],
        violations=viols, inconclusive=st.inconclusive, harness_errors=errors,
        twin=dict(obligations_reached=st.proves),
        rule="one evaluation = one (history kind, format, crash point, surviving prefix)",
        evaluations=st.paths, distinct_nontrivial=st.paths - st.aborted,
    )


def replay(case):
    if case["cfg"].get("reader"):
        common.import_sedpack()
        cfg = case["cfg"]
        with common.scratch_dir("vt06rr_") as tmp:
            with common.scratch_dir("vt06b_") as btmp:
                root0, committed = committed_state(btmp, cfg["ft"], cfg["kind"])
                work = tmp / "work"
                shutil.copytree(root0, work)
            snap = tmp / "snap"
            snap.mkdir()
            fx = fsx.Fsx(work)
            fx.snapshot_to = str(snap)
            with fx:
                crashing_session(work, cfg["ft"], cfg["kind"])
            shutil.copytree(work, snap / str(fx.counter))
            try:
                reader_scenario(ConcreteEngine(case["model"]), cfg, (None, committed, fx.counter, tmp, snap, 10 ** 6))
            except CexFound as c:
                return True, f"reproduced: real reader reading at the model's two instants of the real writer's timeline: {c.msg}"
        return False, "not reproduced"
    try:
        scenario(ConcreteEngine(case["model"]), case["cfg"])
    except CexFound as c:
        return True, f"reproduced: real writer killed at the model's effect, real reader inspected the directory: {c.msg}"
    return False, "not reproduced"
