"""C09 Parallel writers do not interfere.

Real worker processes cannot be executed symbolically; the schedule quantifier is discharged by a commutativity
argument whose premises are checked on the real code under the fsx interposer (one actor per writer):
  (1) the write-set of writer i lies inside root/<split>/<dir_i>/ with pairwise distinct dir_i  => write-sets disjoint;
  (2) no writer reads a file another writer writes, and no writer touches dataset_info.json or a split's top list
      => every interleaving of the workers' file-system effects is equivalent to the sequential one;
  (3) a DatasetFiller that went through pickle (the process boundary) carries the same updated infos;
  (4) the parent merges and returns results in ARGUMENT order whatever the completion order: the worker pool is a
      contract stub whose imap() EVALUATES the calls in a solver-chosen permutation, sends arguments and results
      through pickle, and yields results in submission order (multiprocessing.Pool.imap contract);
  (5) the final dataset equals the one produced by running the same writers one after another: per-split multisets,
      each writer's own order, exact metadata (independent audit), passing integrity check.
Symbolic / solver-forked: number of writers (1..3), per-writer loads (0..2 examples per split), the evaluation
permutation.
"""
from __future__ import annotations

import itertools
import os
import pickle
from pathlib import Path

from .. import common, fillerlab, fsx, metaoracle, par
from ..common import Result, Violation
from ..symx import CexFound, ConcreteEngine, explore

PROP = "C09"
FUNCS = [
    "sedpack.io.dataset_writing:DatasetWriting.write_multiprocessing",
    "sedpack.io.dataset_writing:_wrapper_func",
    "sedpack.io.dataset_writing:DatasetWriting.write_config",
    "sedpack.io.dataset_filler:DatasetFiller.__exit__",
    "sedpack.io.dataset_filler:DatasetFiller.get_updated_infos",
    "sedpack.io.merge_shard_infos:merge_shard_infos",
]
CURRENT = {"fsx": None, "actor_of": {}}


def feed(dataset_filler, writer_index, train_values, test_values):
    fx = CURRENT["fsx"]
    if fx is not None:
        fx.actor = writer_index
    with dataset_filler as f:
        for v in train_values:
            f.write_example(values=fillerlab.example(v), split="train")
        for v in test_values:
            f.write_example(values=fillerlab.example(v), split="test")
    if fx is not None:
        fx.actor = "parent"
    return ("result-of-writer", writer_index, len(train_values) + len(test_values))


def make_pool(e, log):
    class StubPool:
        """multiprocessing.Pool contract: imap yields results in submission order; calls run in any order, in other
        processes (arguments and results cross a pickle boundary)."""

        def __init__(self, processes=None, *a, **k):
            self.processes = processes

        def __enter__(self):
            return self

        def __exit__(self, *a):
            return False

        def imap(self, func, iterable, chunksize=1):
            items = list(iterable)
            n = len(items)
            order = list(range(n))
            perm = []
            while order:
                k = e.choice(f"runs_next{len(perm)}", len(order)) if len(order) > 1 else 0
                perm.append(order.pop(k))
            log.append(("evaluation-order", perm))
            results = [None] * n
            for i in perm:
                arg = pickle.loads(pickle.dumps(items[i]))
                results[i] = pickle.loads(pickle.dumps(func(arg)))
            return iter(results)

        def imap_unordered(self, func, iterable, chunksize=1):
            # completion order = evaluation order
            items = list(iterable)
            order = list(range(len(items)))
            perm = []
            while order:
                k = e.choice(f"runs_next{len(perm)}", len(order)) if len(order) > 1 else 0
                perm.append(order.pop(k))
            log.append(("evaluation-order", perm))
            return iter([pickle.loads(pickle.dumps(func(pickle.loads(pickle.dumps(items[i]))))) for i in perm])

        def map(self, func, iterable, chunksize=None):
            return list(self.imap(func, iterable))

        def close(self):
            pass

        def join(self):
            pass

        def terminate(self):
            pass
    return StubPool


def scenario(e, cfg):
    common.import_sedpack()
    import sedpack.io.dataset_writing as DW
    from sedpack.io import Dataset
    W = cfg["writers"]
    loads = []
    v = 100
    for w in range(W):
        ntr = e.choice(f"train_load{w}", 3)
        nte = e.choice(f"test_load{w}", 2)
        if w == 0 and "load0" in cfg:
            e.assume(ntr == cfg["load0"][0])
            e.assume(nte == cfg["load0"][1])
        loads.append((list(range(v, v + ntr)), list(range(v + 10, v + 10 + nte))))
        v += 20
    with common.scratch_dir("vt09_") as tmp:
        # committed earlier content so that merging meets an existing tree
        def fresh(name):
            d = fillerlab.make_dataset(tmp / name, eps=2, hashes=("md5",))
            with d.filler() as f:
                f.write_example(values=fillerlab.example(1), split="train")
            return d
        d = fresh("par")
        log = []
        args = [(w, tr, te) for w, (tr, te) in enumerate(loads)]
        fx = fsx.Fsx(d.path)
        # creating the shared split directory may race with another worker: it must be idempotent
        fx.mkdir_race = lambda rel: fx.actor != "parent" and len(Path(rel).parts) == 1
        CURRENT["fsx"] = fx
        old_pool = DW.Pool
        DW.Pool = make_pool(e, log)
        # the machine is part of the environment: the number of CPUs, if the code asks for it, is ANY integer >= 1
        cpus = {}

        def cpu_count(*a, **k):
            if "n" not in cpus:
                cpus["n"] = e.fresh_int("cpu_count", 1, None)
            return cpus["n"]

        class EnvOs:
            def __getattr__(self, name):
                if name in ("cpu_count", "process_cpu_count"):
                    return cpu_count
                if name == "sched_getaffinity":
                    return lambda pid=0: range(int(cpu_count()))
                return getattr(os, name)
        env_saved = {k: DW.__dict__[k] for k in ("os", "cpu_count", "multiprocessing") if k in DW.__dict__}
        if "os" in env_saved:
            DW.os = EnvOs()
        if "cpu_count" in env_saved:
            DW.cpu_count = cpu_count
        if "multiprocessing" in env_saved:
            mp_real = env_saved["multiprocessing"]

            class EnvMp:
                def __getattr__(self, name):
                    if name == "cpu_count":
                        return cpu_count
                    if name == "Pool":
                        return DW.Pool
                    return getattr(mp_real, name)
            DW.multiprocessing = EnvMp()
        try:
            with fx:
                fx.actor = "parent"
                try:
                    results = d.write_multiprocessing(feed_writer=feed, custom_arguments=args, single_process=False)
                except CexFound:
                    raise
                except Exception as exc:  # noqa: BLE001
                    e.fail(f"write_multiprocessing with loads {loads} raised {type(exc).__name__}: {str(exc)[:100]}",
                           dict(kind=f"raised-{type(exc).__name__}"))
        finally:
            DW.Pool = old_pool
            for k, v in env_saved.items():
                setattr(DW, k, v)
            CURRENT["fsx"] = None
        what = (f"{W} writers, loads {[(len(a), len(b)) for a, b in loads]}, evaluation order {log[-1][1] if log else None}"
                + (f", on a machine reporting cpu_count={cpus['n']}" if cpus else ""))
        # (4) results in argument order
        e.prove(results == [("result-of-writer", w, len(tr) + len(te)) for w, (tr, te) in enumerate(loads)],
                f"{what}: return values {results} are not the writers' results in argument order", dict(kind="results-not-in-argument-order"))
        # (1) + (2) footprints
        wsets = {w: set() for w in range(W)}
        rsets = {w: set() for w in range(W)}
        for actor, kind, rel in fx.writes:
            if actor in wsets:
                wsets[actor].add(rel)
        for actor, rel in fx.reads:
            if actor in rsets:
                rsets[actor].add(rel)
        dirs = {}
        for w in range(W):
            tops = set()
            for rel in wsets[w]:
                parts = Path(rel).parts
                if len(parts) == 1 and parts[0] in ("train", "test") and all(k == "mkdir" for a, k, r in fx.writes if r == rel and a == w):
                    continue  # idempotent creation of the split directory (checked above to tolerate a lost race)
                own_dir = len(parts) == 2 and all(k == "mkdir" for a, k, r in fx.writes if r == rel and a == w)
                e.prove((len(parts) >= 3 or own_dir) and parts[0] in ("train", "test"),
                        f"{what}: writer {w} writes {rel}, which is not inside a private sub-directory of a split "
                        f"(dataset_info.json / a split's top list / a top-level shard)", dict(kind="worker-writes-shared-file"))
                tops.add(parts[1])
            e.prove(len(tops) <= 1, f"{what}: writer {w} writes into several directories {sorted(tops)}", dict(kind="worker-dirs"))
            dirs[w] = next(iter(tops)) if tops else None
        used = [x for x in dirs.values() if x is not None]
        e.prove(len(used) == len(set(used)), f"{what}: two writers share the directory {used}", dict(kind="writers-share-a-directory"))
        for i, j in itertools.permutations(range(W), 2):
            clash = wsets[i] & (wsets[j] | rsets[j])
            e.prove(not clash, f"{what}: writer {i} writes {sorted(clash)[:2]} which writer {j} reads or writes",
                    dict(kind="workers-touch-the-same-file"))
        # (5) equals the sequential run
        seq = fresh("seq")
        try:
            seq.write_multiprocessing(feed_writer=feed, custom_arguments=args, single_process=True)
        except Exception as exc:  # noqa: BLE001
            e.fail(f"{what}: the sequential (single_process) run raised {type(exc).__name__}: {str(exc)[:100]}",
                   dict(kind=f"sequential-run-raised-{type(exc).__name__}"))
        for sp in ("train", "test"):
            a = fillerlab.read_split(d, sp) if sp in d._dataset_info.splits else []
            b = fillerlab.read_split(seq, sp) if sp in seq._dataset_info.splits else []
            e.prove(sorted(a) == sorted(b), f"{what}: split {sp} holds {sorted(a)}, the sequential run {sorted(b)}",
                    dict(kind="differs-from-sequential-run"))
            for w, (tr, te) in enumerate(loads):
                mine = tr if sp == "train" else te
                got = [x for x in a if x in mine]
                e.prove(got == mine, f"{what}: writer {w}'s examples appear as {got}, written as {mine}", dict(kind="writer-order-lost"))
            e.prove(a == b, f"{what}: order of split {sp} {a} differs from the sequential (argument order) run {b}",
                    dict(kind="merge-not-in-argument-order"))
        problems = metaoracle.audit(d) + metaoracle.memory_equals_disk(d)
        e.prove(not problems, f"{what}: metadata not exact: {problems[:2]}", dict(kind="metadata-not-exact"))
        try:
            Dataset(d.path).check(show_progressbar=False)
        except Exception as exc:  # noqa: BLE001
            e.fail(f"{what}: integrity check fails afterwards: {str(exc)[:100]}", dict(kind="check-fails"))
        return dict(writers=W, loads=[(len(a), len(b)) for a, b in loads], order=log[-1][1] if log else None)


def _cell(cell):
    return explore(lambda e: scenario(e, cell))


def real_pool_case():
    """One run with the real multiprocessing.Pool (anchor for the stub): uneven loads, an idle writer."""
    common.import_sedpack()
    with common.scratch_dir("vt09r_") as tmp:
        d = fillerlab.make_dataset(tmp / "ds", eps=2, hashes=("md5",))
        args = [(0, [100, 101, 102], [110]), (1, [], []), (2, [140], [150])]
        try:
            res = d.write_multiprocessing(feed_writer=feed, custom_arguments=args)
        except Exception as exc:  # noqa: BLE001
            return False, f"write_multiprocessing with the real pool raised {type(exc).__name__}: {str(exc)[:100]}"
        ok = res == [("result-of-writer", 0, 4), ("result-of-writer", 1, 0), ("result-of-writer", 2, 2)]
        try:
            tr = fillerlab.read_split(d, "train")
            te = fillerlab.read_split(d, "test")
            audit = metaoracle.audit(d)
        except Exception as exc:  # noqa: BLE001
            return False, f"results {res}; reading the dataset afterwards raised {type(exc).__name__}: {str(exc)[:100]}"
        return ok and tr == [100, 101, 102, 140] and te == [110, 150] and not audit, f"results {res}, train {tr}, test {te}, audit {audit[:1]}"


def run(tier, seed):
    common.import_sedpack()
    cs = [dict(writers=1), dict(writers=2)] + [dict(writers=3, load0=[a, b]) for a in range(3) for b in range(2)]
    cs.sort(key=lambda c: -c["writers"])
    st, per_cell, errors = par.run_cells(_cell, cs)
    viols, seen = [], set()
    for c in st.cex:
        kind = (c.get("info") or {}).get("kind", c["msg"][:40])
        sig = f"{PROP}:{kind}"
        if sig in seen:
            continue
        seen.add(sig)
        W = int(c["msg"].split(" writers")[0].split()[-1]) if " writers" in c["msg"] else 2
        viols.append(Violation(sig, f"{c['msg']}", dict(model=c["model"], cfg=dict(writers=W))))
    ok, detail = real_pool_case()
    if not ok:
        viols.append(Violation("C09:real-pool-run", f"real multiprocessing.Pool run: {detail}", dict(real=True)))
    return Result(
        property_id=PROP, engine="symx + fsx footprints",
        explanation="The schedule quantifier over worker processes is discharged by commutativity: on every explored path (solver-"
                    "forked writer count, loads and completion order) the real write_multiprocessing runs with a pool CONTRACT stub "
                    "that evaluates the workers in the chosen order across a pickle boundary; the fsx interposer records each "
                    "writer's read- and write-set; proved per path: write-sets are private and disjoint, no writer reads what "
                    "another writes, nobody but the parent touches shared metadata, results and merge order are the argument "
                    "order, and the dataset equals the sequential run (multisets, per-writer order, audit, check()).",
        functions=FUNCS,
        bounds=dict(writers="1..3", per_writer_load="0..2 train, 0..1 test examples", evaluation_orders="all permutations"),
        stats=st.as_dict(), samples=st.samples + [dict(real_pool_anchor=detail)],
        assumptions=["multiprocessing.Pool.imap contract (results in submission order)", "uuid4 names are distinct",
                     "disjoint footprints => the OS may interleave the workers' effects arbitrarily without changing the outcome"],
        outside=["the operating system scheduler itself", "Pool internals", "more than 3 writers"],
        violations=viols, inconclusive=st.inconclusive, harness_errors=errors,
        twin=dict(obligations_reached=st.proves),
        rule="one evaluation = one explored path = (writer count, loads, evaluation permutation)",
        evaluations=st.paths, distinct_nontrivial=st.paths - st.aborted,
    )


def replay(case):
    common.import_sedpack()
    if case.get("real"):
        ok, detail = real_pool_case()
        return (not ok), detail
    try:
        scenario(ConcreteEngine(case["model"]), case["cfg"])
    except CexFound as c:
        return True, f"reproduced with {case['model']}: {c.msg}"
    return False, "not reproduced"
