"""C17 Paths taken from metadata cannot escape the dataset directory.

Symbolic: every path-valued metadata field / the writer sub-directory is a SymPath (absolute flag +
<= 3 parts over {"..", a, b, shards_list.json}).  Real code driven on these symbolic paths:
  * the declared pydantic field validators (discovered through __pydantic_decorators__, so a removed
    validator is no longer run): FileInfo.no_directory_traversal, ShardListInfo.check_is_shards_list,
    ShardsList.check_is_shards_list;
  * the readers' join sites: DatasetBase._load, _shard_info_iterator / shard_info_iterator,
    DatasetWriting.check / _check_shard_list_info, DatasetIteration.shard_paths_dataset +
    as_numpy_iterator (stub decoder), on crafted metadata (model_construct'ed after running the
    validators the way pydantic does on load);
  * the writer: _DatasetFillerContext.__init__ guard, _get_new_shard and close_shard join sites.
Obligation at every file access (read_text / hash / decoder open / create): the accessed location does
not lexically escape the root, for ALL symbolic paths on the current execution path.
"""
from __future__ import annotations

import types
from pathlib import Path

import z3

from .. import common, iterlab, par, sympath
from ..common import Result, Violation
from ..symx import CexFound, ConcreteEngine, Engine, Inconclusive, SymBool, explore
from ..sympath import JoinedSym, SymPath

PROP = "C17"
FUNCS = [
    "sedpack.io.file_info:FileInfo.no_directory_traversal",
    "sedpack.io.shard_file_metadata:ShardListInfo.check_is_shards_list",
    "sedpack.io.shard_file_metadata:ShardsList.check_is_shards_list",
    "sedpack.io.dataset_base:DatasetBase._load",
    "sedpack.io.dataset_base:DatasetBase._shard_info_iterator",
    "sedpack.io.dataset_writing:DatasetWriting.check",
    "sedpack.io.dataset_writing:DatasetWriting._check_shard_list_info",
    "sedpack.io.dataset_iteration:DatasetIteration.shard_paths_dataset",
    "sedpack.io.dataset_filler:_DatasetFillerContext.__init__",
    "sedpack.io.dataset_filler:_DatasetFillerContext._get_new_shard",
    "sedpack.io.dataset_filler:_DatasetFillerContext.close_shard",
]


def run_field_validators(cls, field, value):
    """What pydantic does for `field` on load: run the declared field validators (mode 'after'); like pydantic, an
    AssertionError raised by a validator is a validation error (a ValueError for the caller)."""
    for name, dec in cls.__pydantic_decorators__.field_validators.items():
        if field in dec.info.fields or "*" in dec.info.fields:
            try:
                value = getattr(cls, name)(value)
            except AssertionError as exc:
                raise ValueError(f"assertion failed in validator {name}: {exc}") from exc
    return value


class Access:
    """Dataset root object: `root / x` gives a Loc; every file access on a Loc is an obligation."""

    def __init__(self, e, docs):
        self.e = e
        self.docs = docs  # key (SymPath object id or str) -> document builder
        self.log = []

    def __truediv__(self, o):
        return Loc(self, [o])

    def resolve(self):
        return self

    def __format__(self, spec):
        return "<root>"

    __str__ = __repr__ = lambda s: "<root>"


class Loc:
    def __init__(self, root: Access, segs):
        self.root = root
        flat = []
        for s in segs:
            flat += s.segs if isinstance(s, JoinedSym) else [s]
        self.segs = flat

    def __truediv__(self, o):
        return Loc(self.root, self.segs + [o])

    def _escapes(self):
        return JoinedSym(self.root.e, [self.root] + self.segs).escapes_root(0)

    def _touch(self, how):
        e = self.root.e
        self.root.log.append((how, [str(s) for s in self.segs]))
        e.prove(SymBool(e, z3.Not(self._escapes())),
                f"{how} of a location outside the dataset root: root / {' / '.join(str(s) for s in self.segs)}",
                dict(kind=f"escape-on-{how}", segs=[getattr(s, 'sym_name', str(s)) for s in self.segs]))

    def _key(self):
        if len(self.segs) == 1:
            s = self.segs[0]
            if isinstance(s, SymPath):
                return id(s)
            back = sympath.REALISED.get(str(s))
            return id(back) if back is not None and id(back) in self.root.docs else str(s)
        return None

    def read_text(self, encoding=None):
        self._touch("read")
        k = self._key()
        if k not in self.root.docs:
            raise FileNotFoundError(str(self))
        return Token(self.root.docs[k])

    def is_file(self):
        self._touch("stat")
        return self._key() in self.root.docs

    @property
    def parent(self):
        return Loc(self.root, [JoinedSym(self.root.e, self.segs).parent])

    def mkdir(self, **kw):
        self._touch("mkdir")

    def token(self):
        t = LocStr(f"vt://{len(self.root.log)}")
        t.loc = self
        return t

    def __str__(self):
        # str(root / p) is how shard paths are handed to decoders
        return self.token()

    def __fspath__(self):
        raise Inconclusive("symbolic location reached os.fspath")


class LocStr(str):
    loc = None


class Token(str):
    """JSON text stand-in carrying the document builder (memdocs idea)."""

    def __new__(cls, builder):
        s = super().__new__(cls, "<document>")
        s.builder = builder
        return s


def craft(e, K):
    """Crafted metadata tree with independent symbolic paths everywhere a path can occur."""
    from sedpack.io.file_info import FileInfo
    from sedpack.io.metadata import DatasetInfo
    from sedpack.io.shard_file_metadata import ShardInfo, ShardListInfo, ShardsList
    P = {n: SymPath(e, n, K=K) for n in ("top_list", "shard", "child_list", "child_shard")}

    def file_info(p):
        p = run_field_validators(FileInfo, "file_path", p)
        return FileInfo.model_construct(file_path=p, hash_checksums=("tok",))

    def list_info(p):
        fi = file_info(p)
        fi = run_field_validators(ShardListInfo, "shard_list_info_file", fi)
        return ShardListInfo.model_construct(shard_list_info_file=fi, number_of_examples=1, number_of_shards=1)

    def shards_list(self_path, shard_paths, child_paths):
        def build():
            sp = run_field_validators(ShardsList, "relative_path_self", self_path)
            return ShardsList.model_construct(
                relative_path_self=sp, number_of_examples=1,
                shard_files=[ShardInfo.model_construct(file_infos=(file_info(q),), number_of_examples=1, custom_metadata={})
                             for q in shard_paths],
                children_shard_lists=[list_info(q) for q in child_paths])
        return build

    def dataset_info():
        di = DatasetInfo()
        di.splits = {"train": list_info(P["top_list"])}
        return di

    docs = {
        "dataset_info.json": dataset_info,
        id(P["top_list"]): shards_list(P["top_list"], [P["shard"]], [P["child_list"]]),
        id(P["child_list"]): shards_list(P["child_list"], [P["child_shard"]], []),
    }
    return P, docs


def reader_scenario(e, cfg):
    common.import_sedpack()
    import sedpack.io.dataset_base as DB
    import sedpack.io.dataset_iteration as DI
    import sedpack.io.dataset_writing as DW
    import sedpack.io.utils as U
    from sedpack.io import Dataset
    K = cfg["K"]
    P, docs = craft(e, K)
    root = Access(e, docs)

    def validate_json(tok, *a, **k):
        if not isinstance(tok, Token):
            raise Inconclusive("model_validate_json on real text in the symbolic reader harness")
        return tok.builder()

    def fake_hash(file_path, hashes):
        if isinstance(file_path, Loc):
            file_path._touch("hash")
        else:
            raise Inconclusive(f"hash_checksums of {type(file_path).__name__}")
        return ("tok",)

    dec = iterlab.fresh_token_decoder({})

    def iterate_shard(self, file_path):
        if not isinstance(file_path, LocStr):
            raise Inconclusive("decoder opened something that is not root / metadata path")
        file_path.loc._touch("decode")
        return iter([{"a": 1}])
    dec.iterate_shard = iterate_shard
    stub_models = types.SimpleNamespace(model_validate_json=validate_json)
    rejected = None
    with iterlab.patched(DB, DatasetInfo=stub_models, ShardsList=stub_models), \
            iterlab.patched(DW, ShardsList=stub_models), \
            iterlab.patched(U, hash_checksums=fake_hash), \
            iterlab.patched(DI, IterateShardFlatBuffer=dec, IterateShardNP=dec, IterateShardTFRec=dec):
        try:
            info = DB.DatasetBase._load(root)
            d = Dataset.__new__(Dataset)
            d.path = root
            d._dataset_info = info
            import logging
            d._logger = logging.getLogger("vt")
            step = cfg["op"]
            if step == "check":
                d.check(show_progressbar=False)
            elif step == "iterate":
                list(d.as_numpy_iterator(split="train", repeat=False, shuffle=0))
            elif step == "shard_infos":
                list(d.shard_info_iterator("train"))
        except (ValueError, FileNotFoundError) as exc:
            # rejected when loaded (pydantic's ValidationError is a ValueError) / no such file inside the root: fine
            rejected = str(exc)[:60]
    return dict(op=cfg["op"], rejected=rejected, accesses=len(root.log))


def validator_scenario(e, cfg):
    """accept(p) => root / p stays inside root, for each validator in isolation."""
    common.import_sedpack()
    from sedpack.io.file_info import FileInfo
    from sedpack.io.shard_file_metadata import ShardsList
    p = SymPath(e, "p", K=cfg["K"])
    which = cfg["validator"]
    try:
        if which == "FileInfo.file_path":
            run_field_validators(FileInfo, "file_path", p)
        elif which == "ShardsList.relative_path_self":
            run_field_validators(ShardsList, "relative_path_self", p)
        elif which == "filler.relative_path_from_split":
            from sedpack.io.dataset_filler import _DatasetFillerContext
            from sedpack.io.metadata import DatasetStructure
            _DatasetFillerContext(dataset_root_path=Path("/vt/root"), dataset_structure=DatasetStructure(),
                                  relative_path_from_split=p)
    except ValueError:
        return dict(validator=which, accepted=False)
    depth0 = 1 if which.startswith("filler") else 0
    e.prove(SymBool(e, z3.Not(p.escapes(depth0))), f"{which} accepts a path that leaves the dataset root"
            + (f" (process working directory {cfg['cwd']})" if cfg.get("cwd") else ""),
            dict(kind=f"validator-accepts-escaping-path:{which}", segs=["p"], cwd=cfg.get("cwd")))
    return dict(validator=which, accepted=True)


def writer_scenario(e, cfg):
    """Join sites of the writer with a symbolic sub-directory: every created location is inside the root."""
    common.import_sedpack()
    import sedpack.io.dataset_filler as DF
    from sedpack.io.file_info import FileInfo
    from sedpack.io.metadata import DatasetStructure
    from sedpack.io.shard_file_metadata import ShardsList
    p = SymPath(e, "p", K=cfg["K"])
    root = Access(e, {})
    created = []

    def FileInfoStub(file_path, hash_checksums=()):
        fp = run_field_validators(FileInfo, "file_path", file_path) if isinstance(file_path, SymPath) else file_path
        return types.SimpleNamespace(file_path=fp, hash_checksums=hash_checksums)

    def ShardInfoStub(file_infos, number_of_examples=0, custom_metadata=None):
        return types.SimpleNamespace(file_infos=file_infos, number_of_examples=number_of_examples,
                                     custom_metadata=custom_metadata or {})

    class ShardStub:
        def __init__(self, shard_info, dataset_structure, dataset_root_path):
            self.shard_info = shard_info
            self.loc = dataset_root_path / shard_info.file_infos[0].file_path
            self.loc._touch("create")
            created.append(self.loc)

        def write(self, values):
            self.shard_info.number_of_examples += 1

        def close(self):
            return self.shard_info

    class ShardsListStub:
        @staticmethod
        def load_or_create(dataset_root_path, relative_path_self):
            loc = dataset_root_path / relative_path_self
            loc._touch("stat")
            sl = types.SimpleNamespace(shard_files=[], number_of_examples=0, relative_path_self=relative_path_self)

            def write_config(dataset_root_path, hashes):
                (dataset_root_path / relative_path_self)._touch("create")
            sl.write_config = write_config
            return sl

    try:
        with iterlab.patched(DF, FileInfo=FileInfoStub, ShardInfo=ShardInfoStub, Shard=ShardStub, ShardsList=ShardsListStub):
            ctx = DF._DatasetFillerContext(dataset_root_path=root, dataset_structure=DatasetStructure(examples_per_shard=1),
                                           relative_path_from_split=p)
            ctx.write_example(values={"a": 1}, split="train")
            ctx.write_example(values={"a": 2}, split="train")
    except ValueError:
        return dict(writer="rejected")
    return dict(writer="accepted", created=len(created))


def _cell(cell):
    if cell.get("optimized") and not cell.get("_in_subprocess"):
        # the same symbolic run in an interpreter started with -O (assert statements are compiled away)
        import base64
        import json
        import pickle
        import subprocess
        import sys
        r = subprocess.run([sys.executable, "-O", "-m", "vtlib.checks.c17", json.dumps(dict(cell, _in_subprocess=True))],
                           capture_output=True, text=True, timeout=1200, cwd=str(common.VERIF))
        for line in r.stdout.split("\n"):
            if line.startswith("RESULT "):
                return pickle.loads(base64.b64decode(line[7:]))
        from ..symx import Stats
        st = Stats()
        st.inconclusive.append("python -O sub-process failed: " + r.stderr[-300:])
        return st
    kind = cell["kind"]
    fn = {"reader": reader_scenario, "validator": validator_scenario, "writer": writer_scenario}[kind]
    if cell.get("cwd"):
        # the process working directory is part of the environment: the verdict of a validator must not depend on it
        import os
        old_cwd = os.getcwd()
        os.chdir(cell["cwd"])
        try:
            return explore(lambda e: fn(e, cell))
        finally:
            os.chdir(old_cwd)
    return explore(lambda e: fn(e, cell))


def run(tier, seed):
    common.import_sedpack()
    problems = sympath.selftest(2 if tier == "quick" else 3)
    K = 3 if tier == "quick" else 4
    cs = [dict(kind="validator", validator=v, K=max(K, 4)) for v in  # 4 parts: split/../../shards_list.json
          ("FileInfo.file_path", "ShardsList.relative_path_self", "filler.relative_path_from_split")]
    cs += [dict(kind="reader", op=op, K=(2 if tier == "quick" else 3)) for op in ("shard_infos", "check", "iterate")]
    cs += [dict(kind="writer", K=K)]
    cs += [dict(c, cwd="/") for c in cs if c["kind"] == "validator"]
    # the protection must not depend on assert statements: the validator cells again under `python -O`
    cs += [dict(c, optimized=True) for c in cs if c["kind"] in ("validator", "writer")]
    st, per_cell, errors = par.run_cells(_cell, cs)
    errors += [f"SymPath self-test: {p}" for p in problems[:5]]
    viols, seen = [], set()
    for c in st.cex:
        info = c.get("info") or {}
        kind = info.get("kind", c["msg"][:40])
        m = c["model"]
        # which symbolic path escapes, as a concrete string
        names = [s for s in info.get("segs", []) if f"{s}_len" in m or f"{s}_root" in m]
        conc = {n: sympath.concrete_from_model(n, m) for n in names}
        for lit in info.get("segs", []):
            if lit not in conc and ("w/.." in lit or "\\" in lit):
                conc[f"literal:{lit[:6]}"] = "w\\..\\..\\..\\x"
        flavour = ("winsep" if any("\\" in v for v in conc.values()) else
                   "absolute" if any(m.get(f"{n}_root") for n in names) else "dotdot")
        sig = f"C17:{kind}:{flavour}" + (":python-O" if "python -O" in c["msg"] else "")
        if sig in seen:
            continue
        seen.add(sig)
        viols.append(Violation(sig, f"{c['msg']} with {conc}", dict(kind=kind, paths=conc, model=m, optimized=("python -O" in c["msg"]),
                                                                     cwd=info.get("cwd"))))
    return Result(
        property_id=PROP, engine="symx + SymPath shim",
        explanation="Symbolic execution with z3 of the real path validators, of the readers' join sites (load, shard-info "
                    "iteration, check, iteration with a stub decoder) on crafted metadata whose every path field is an independent "
                    "symbolic path, and of the writer's sub-directory guard and join sites.  At every file access the solver "
                    "proves that the accessed location cannot lexically escape the root for any value of the symbolic paths "
                    "compatible with the execution path (i.e. accepted by the validators that ran).",
        functions=FUNCS,
        bounds=dict(parts_per_path=f"<= {K} (validators, writer), <= {2 if tier == 'quick' else 3} (reader tree with 4 independent paths)",
                    alphabet=list(sympath.TOK.values()) + ["root in {none, /, //}"], tree="top list -> 1 shard + 1 child list -> 1 shard"),
        stats=st.as_dict(), samples=st.samples,
        assumptions=["no symbolic links inside the dataset directory (the property is about path strings)",
                     "pathlib parsing drops '.' and empty components (self-tested)",
                     "pydantic runs exactly the declared field validators on load (mimicked through __pydantic_decorators__)"],
        outside=["longer paths", "Windows path flavours", "symlinks"],
        violations=viols, inconclusive=st.inconclusive, harness_errors=errors,
        twin=dict(obligations_reached=st.proves),
        rule="one evaluation = one execution path through validators/join sites = a class of path tuples",
        evaluations=st.paths, distinct_nontrivial=st.paths - st.aborted,
    )


def replay(case):
    """Concrete replay on the real pydantic models / real files: a sentinel file outside the root must not
    be read, created, or accepted."""
    import sys
    if case.get("optimized") and not sys.flags.optimize:
        import json
        import subprocess
        r = subprocess.run([sys.executable, "-O", "-c",
                            "import json,sys; from vtlib.checks import c17; ok,d=c17.replay(json.loads(sys.argv[1])); print(d); sys.exit(1 if ok else 0)",
                            json.dumps(case)], capture_output=True, text=True, timeout=600, cwd=str(common.VERIF))
        return r.returncode == 1, "[python -O] " + r.stdout[-400:]
    common.import_sedpack()
    import json
    from sedpack.io import Dataset
    from sedpack.io.file_info import FileInfo
    from sedpack.io.shard_file_metadata import ShardsList
    kind = case["kind"]
    paths = case["paths"]
    if case.get("cwd"):
        import os
        os.chdir(case["cwd"])  # (the replay runs in its own process)
    with common.scratch_dir("vt17r_") as tmp:
        outer = tmp / "outer"
        root = outer / "ds"
        root.mkdir(parents=True)
        if kind.startswith("validator-accepts"):
            which = kind.split(":", 1)[1]
            p = next(iter(paths.values()))
            # make absolute paths point into the scratch area
            if p.startswith("/"):
                two = p.startswith("//") and not p.startswith("///")
                p = ("/" if two else "") + str(tmp / "abs" / p.lstrip("/"))
            try:
                if which == "FileInfo.file_path":
                    FileInfo(file_path=p)
                elif which == "ShardsList.relative_path_self":
                    ShardsList(relative_path_self=p)
                else:
                    from ..fillerlab import make_dataset
                    from sedpack.io.dataset_filler import DatasetFiller
                    d = make_dataset(root / "d")
                    before = _snapshot(tmp, d.path)
                    try:
                        with DatasetFiller(d, relative_path_from_split=Path(p)) as f:
                            f.write_example(values={"a": __import__("numpy").array([1, 1], "int32")}, split="train")
                    except Exception:  # noqa: BLE001
                        pass
                    after = _snapshot(tmp, d.path)
                    return (after != before), f"files outside the root after writing with sub-directory {p!r}: {sorted(after - before)[:4]}"
            except ValueError as exc:
                return False, f"rejected: {str(exc)[:80]}"
            return True, f"{which} accepted {p!r}"
        # reader / writer join-site escapes: build a real dataset, then point one metadata path outside
        import shutil
        from ..fillerlab import example, make_dataset
        bad = next(iter(paths.values())) if paths else "../x"

        def spell(outside: Path, rel_from_root: str):
            """The escaping spelling of the model, aimed at a real file outside the root."""
            if "\\" in bad:
                return "train\\..\\" + rel_from_root.replace("/", "\\")
            if bad.startswith("//") and not bad.startswith("///"):
                return "/" + str(outside)
            if bad.startswith("/"):
                return str(outside)
            return rel_from_root

        outcomes = []
        # variant 1: a shard file path pointing outside
        d = make_dataset(root / "d1", eps=1)
        with d.filler() as f:
            f.write_example(values=example(7), split="train")
        lst = d.path / "train" / "shards_list.json"
        doc = json.loads(lst.read_text())
        inside = d.path / doc["shard_files"][0]["file_infos"][0]["file_path"]
        outside = outer / "secret" / "x.fb"
        outside.parent.mkdir(parents=True, exist_ok=True)
        shutil.move(str(inside), str(outside))
        doc["shard_files"][0]["file_infos"][0]["file_path"] = spell(outside, "../../secret/x.fb")
        lst.write_text(json.dumps(doc))
        try:
            got = [int(e["a"][0]) for e in Dataset(d.path).as_numpy_iterator(split="train", repeat=False, shuffle=0)]
            if got == [7]:
                return True, f"shard path {doc['shard_files'][0]['file_infos'][0]['file_path']!r} was accepted and the example was read from {outside} (outside the root)"
            outcomes.append(f"shard variant read {got}")
        except Exception as exc:  # noqa: BLE001
            outcomes.append(f"shard variant rejected: {type(exc).__name__}: {str(exc)[:80]}")
        # variant 2: the split's shard list path pointing outside
        d = make_dataset(root / "d2", eps=1)
        with d.filler() as f:
            f.write_example(values=example(0), split="train")
        secret = outer / "secret_shards" / "shards_list.json"
        secret.parent.mkdir(parents=True, exist_ok=True)
        top = d.path / "train" / "shards_list.json"
        shutil.move(str(top), str(secret))
        info = json.loads((d.path / "dataset_info.json").read_text())
        target = spell(secret, "../../secret_shards/shards_list.json")
        info["splits"]["train"]["shard_list_info_file"]["file_path"] = target
        (d.path / "dataset_info.json").write_text(json.dumps(info))
        try:
            d2 = Dataset(d.path)
            n = len(list(d2.shard_info_iterator("train")))
            return True, f"metadata path {target!r} outside the root was accepted and read ({n} shard infos)"
        except Exception as exc:  # noqa: BLE001
            outcomes.append(f"list variant rejected: {type(exc).__name__}: {str(exc)[:80]}")
        return False, "; ".join(outcomes)


def _snapshot(tmp, inside):
    out = set()
    for p in Path(tmp).rglob("*"):
        if not str(p).startswith(str(inside)):
            out.add(str(p))
    return out


if __name__ == "__main__":
    import base64
    import json
    import pickle
    import sys
    _st = _cell(json.loads(sys.argv[1]))
    for _c in _st.cex:
        _c["msg"] = "[python -O] " + _c["msg"]
    print("RESULT " + base64.b64encode(pickle.dumps(_st)).decode(), flush=True)
