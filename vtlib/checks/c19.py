"""C19 Repeating iteration cycles through the whole split forever (see vtlib/iterscen.py)."""
from __future__ import annotations

import inspect
from collections import Counter

from .. import common, iterlab, iterscen, par
from ..common import Result, Violation
from ..symx import CexFound, ConcreteEngine, explore
from . import c02

PROP = "C19"
FUNCS = c02.FUNCS + ["sedpack.io.dataset_iteration:DatasetIteration.as_tfdataset"]
IFACES = ["numpy", "concurrent", "async", "rust", "tfdataset"]


def scenario(e, cfg, built=None):
    common.import_sedpack()
    own = built is None
    ctx = common.scratch_dir("vt19_") if own else None
    tmp = ctx.__enter__() if own else None
    try:
        if own:
            built = iterscen.build(tmp, cfg["layout"])
        d, table, written = built
        iface, split = cfg["iface"], cfg.get("split", "train")
        tokens = iterscen.split_tokens(d, table, split)
        N = len(tokens)
        S = sum(1 for _ in d.shard_info_iterator(split))
        shuffled = bool(cfg["shuffled"])
        epochs = cfg["epochs"]
        b = e.fresh_int("shuffle", 1, 2) if shuffled else 0
        tiny = shuffled and iface in ("concurrent", "async")  # round-robin and pool-order forks at every element
        T = e.fresh_int("T", 1, 2 if tiny else S + 1)
        k = e.fresh_int("take", 1, 2 if tiny else epochs * N + 1)
        mon = iterscen.Monitor()
        got = []
        try:
            gen = iterscen.stream(e, d, table, iface, split=split, shuffle=b, T=T, repeat=True, mon=mon)
            for tok in gen:
                got.append(tok)
                if len(got) >= k:
                    break
            gen.close()
        except CexFound:
            raise
        except Exception as exc:  # noqa: BLE001
            e.fail(f"{iface}/{cfg['layout']} shuffled={shuffled}: repeating stream raised {type(exc).__name__}: {str(exc)[:100]}",
                   dict(kind=f"{iface}-raised-{type(exc).__name__}"))
        e.prove(len(got) == k, f"{iface}/{cfg['layout']} shuffled={shuffled}: the repeating stream ended after {len(got)} elements "
                               f"(split has {N}); it must be endless", dict(kind=f"{iface}-stream-ends"))
        foreign = [t for t in got if t not in tokens]
        e.prove(not foreign, f"{iface}/{cfg['layout']} shuffled={shuffled}: elements {foreign} are not examples of split {split}",
                dict(kind=f"{iface}-foreign-elements"))
        if not shuffled:
            one_pass = list(iterscen.stream(e, d, table, "numpy", split=split, shuffle=0, T=1, repeat=False))
            bad = [i for i, t in enumerate(got) if t != one_pass[i % N]]
            e.prove(not bad, f"{iface}/{cfg['layout']} shuffled=False: stream {got} is not the one-pass sequence {one_pass} repeated "
                             f"(first difference at {bad[:1]})", dict(kind=f"{iface}-not-periodic"))
        if iface == "tfdataset" and not shuffled and getattr(mon, "tf_dataset", None) is not None \
                and mon.tf_dataset.source == "from_generator":
            # the SAME returned tf.data.Dataset object iterated again (next epoch of model.fit, or a second loop): tf calls the
            # generator function anew; the new stream is again the one-pass sequence repeated, from its beginning
            import sedpack.io.dataset_iteration as DI
            import sedpack.io.itertools.itertools as IT
            restore = iterscen.patch_randomness(e, IT)
            patches = dict(IterateShardFlatBuffer=iterscen.make_decoder(table, iterscen.Monitor()), ThreadPoolExecutor=iterscen.StubExecutor,
                           LazyPool=iterscen.make_lazy_pool(e))
            old = {n: getattr(DI, n) for n in patches}
            for n, v in patches.items():
                setattr(DI, n, v)
            second = []
            try:
                g2 = mon.tf_dataset.run_generator()
                for tok in g2:
                    second.append(tok)
                    if len(second) >= min(int(k), N + 1):
                        break
            except CexFound:
                raise
            except Exception as exc:  # noqa: BLE001
                second = f"raised {type(exc).__name__}: {str(exc)[:60]}"
            finally:
                for n, v in old.items():
                    setattr(DI, n, v)
                restore()
            want2 = [one_pass[i % N] for i in range(min(int(k), N + 1))]
            e.prove(second == want2, f"tfdataset/{cfg['layout']}: iterating the SAME returned dataset object again after {len(got)} elements "
                                     f"yields {second} instead of the one-pass sequence repeated from its beginning {want2}",
                    dict(kind="tfdataset-second-iteration-not-periodic"))
        if iface == "rust":
            for start in range(0, len(got) - N + 1, N):
                block = got[start:start + N]
                e.prove(Counter(block) == Counter(tokens), f"rust/{cfg['layout']} shuffled={shuffled}: epoch {start // N} is {block}, not a "
                        f"permutation of the split {sorted(tokens)}", dict(kind="rust-epoch-not-a-permutation"))
            insts = mon.rust.instances
            started = (len(got) + N - 1) // N
            e.prove(started <= len(insts) <= started + 1, f"rust/{cfg['layout']}: {len(insts)} native iterators created for {started} started epochs",
                    dict(kind="rust-iterator-per-epoch"))
            e.prove(all(i.entered == 1 and i.exited >= 1 for i in insts),
                    f"rust/{cfg['layout']}: native iterators entered/exited {[(i.entered, i.exited) for i in insts]} (each must be entered "
                    f"once and released)", dict(kind="rust-iterator-not-released"))
        return dict(iface=iface, got=got[:12])
    finally:
        if own:
            ctx.__exit__(None, None, None)


def two_streams(e, cfg, built):
    """Two repeating streams alive at the same time in one process (training and validation), pulled alternately in a
    solver-chosen pattern: neither may fail or end, each yields only its own split, unshuffled each is periodic."""
    import sedpack.io.dataset_iteration as DI
    import sedpack.io.itertools.itertools as IT
    import sedpack.io.itertools.lazy_pool as LP
    d, table, written = built
    iface = cfg["iface"]
    shuffled = bool(cfg["shuffled"])
    iterscen.clear_module_caches(DI, IT, LP)
    b = e.fresh_int("shuffle", 1, 2) if shuffled else 0
    T = e.fresh_int("T", 1, 2)
    splits = ("train", "test")
    toks = {sp: iterscen.split_tokens(d, table, sp) for sp in splits}
    gens, got = {}, {sp: [] for sp in splits}
    steps = cfg["steps"]
    what = f"{iface}/{cfg['layout']} shuffled={shuffled}: two live repeating streams (train, test)"
    try:
        for sp in splits:
            gens[sp] = iterscen.stream(e, d, table, iface, split=sp, shuffle=b, T=T, repeat=True)
        order = []
        for i in range(steps):
            sp = splits[0] if i == 0 else splits[1] if i == 1 else splits[e.choice(f"pull{i}", 2)]
            order.append(sp)
            try:
                got[sp].append(next(gens[sp]))
            except StopIteration:
                e.fail(f"{what}: the {sp} stream ended after {len(got[sp])} elements (pull order {order})", dict(kind=f"{iface}-two-streams-one-ends"))
            except CexFound:
                raise
            except Exception as exc:  # noqa: BLE001
                e.fail(f"{what}: the {sp} stream raised {type(exc).__name__}: {str(exc)[:90]} (pull order {order})",
                       dict(kind=f"{iface}-two-streams-raised-{type(exc).__name__}"))
    finally:
        for sp in reversed(splits):
            if sp in gens:
                try:
                    gens[sp].close()
                except Exception:  # noqa: BLE001
                    pass
    for sp in splits:
        foreign = [t for t in got[sp] if t not in toks[sp]]
        e.prove(not foreign, f"{what}: the {sp} stream yielded {foreign}, which are not examples of {sp}", dict(kind=f"{iface}-two-streams-foreign"))
        if not shuffled:
            n = len(toks[sp])
            e.prove(got[sp] == [toks[sp][i % n] for i in range(len(got[sp]))],
                    f"{what}: the {sp} stream yielded {got[sp]}, not its one-pass sequence {toks[sp]} repeated", dict(kind=f"{iface}-two-streams-not-periodic"))
    return dict(iface=iface, two=True, got={k: v[:6] for k, v in got.items()})


def tf_pipeline_problems():
    import sedpack.io.dataset_iteration as DI
    problems = []
    with common.scratch_dir("vt19t_") as tmp:
        d, table, written = iterscen.build(tmp, "short-last")
        d.dataset_structure.shard_file_type = "tfrec"
        for shuffle, batch_size in ((0, 0), (3, 0), (0, 3), (3, 3)):
            rec = iterlab.RecTF()
            with iterlab.patched(DI, tf=rec, get_from_tfrecord=lambda desc: ("decode", len(desc))):
                ds = d.as_tfdataset("train", shuffle=shuffle, batch_size=batch_size)  # repeat defaults to True
            names = ds.names()
            # nothing that can DROP elements may sit between the source and repeat(): a remainder dropped in every
            # epoch never appears in the stream
            if "repeat" in names:
                for name, a, k in ds.ops[:names.index("repeat")]:
                    if name == "batch" and (k.get("drop_remainder") or (len(a) > 1 and a[1])):
                        problems.append(f"tfrec pipeline (shuffle={shuffle}, batch_size={batch_size}): batch(drop_remainder=True) is applied "
                                        f"before repeat(): the last n % batch_size examples of the split never appear")
                    if name in ("take", "skip", "filter", "shard"):
                        problems.append(f"tfrec pipeline: {name}() before repeat() removes examples from every epoch")
            if "repeat" not in names:
                problems.append(f"tfrec pipeline (shuffle={shuffle}) has no repeat() although repetition is the default")
            elif "interleave" in names and names.index("repeat") > names.index("interleave"):
                pass  # repeating after reading is also endless
            rep = [o for o in ds.ops if o[0] == "repeat"]
            if rep and (rep[0][1] not in ((), (None,), (-1,)) or rep[0][2].get("count") not in (None, -1)):
                problems.append(f"repeat() with a finite count {rep[0]}")
    for name in ("as_numpy_iterator", "as_numpy_iterator_concurrent", "as_numpy_iterator_async", "as_numpy_iterator_rust", "as_tfdataset"):
        from sedpack.io import Dataset
        if inspect.signature(getattr(Dataset, name)).parameters["repeat"].default is not True:
            problems.append(f"{name}: repetition is not the default")
    return problems


def _cell(cell):
    common.import_sedpack()
    with common.scratch_dir("vt19_") as tmp:
        built = iterscen.build(tmp, cell["layout"])
        if cell.get("two"):
            return explore(lambda e: two_streams(e, cell, built))
        return explore(lambda e: scenario(e, cell, built))


def cells(tier):
    out = []
    for iface in IFACES:
        for shuffled in (0, 1):
            if shuffled and iface == "tfdataset":
                continue
            out.append(dict(two=True, iface=iface, layout="three-splits", shuffled=shuffled, epochs=1,
                            steps=(4 if shuffled and iface in ("concurrent", "async") else 6) if tier == "quick" else
                                  (5 if shuffled and iface in ("concurrent", "async") else 8)))
    for iface in IFACES:
        for layout in (["two-shards", "singles", "short-last"] + (["nested", "four-shards"] if tier == "thorough" else [])):
            for shuffled in (0, 1):
                epochs = 3 if not shuffled else (3 if iface == "rust" else 1)
                if shuffled and layout != "two-shards" and iface in ("concurrent", "async", "tfdataset", "numpy") and tier == "quick":
                    continue
                if shuffled and iface == "tfdataset":
                    continue  # delegates to the concurrent path (covered), tf.shuffle is outside
                if shuffled and layout in ("four-shards", "nested") and iface != "rust":
                    continue  # measured: > 900 s per cell
                out.append(dict(iface=iface, layout=layout, shuffled=shuffled, epochs=epochs))
    return out


def run(tier, seed):
    common.import_sedpack()
    cs = cells(tier)
    st, per_cell, errors = par.run_cells(_cell, cs)
    viols, seen = [], set()
    for c in st.cex:
        kind = (c.get("info") or {}).get("kind", c["msg"][:40])
        sig = f"{PROP}:{kind}"
        if sig in seen:
            continue
        seen.add(sig)
        head = c["msg"].split(":")[0].split(" ")[0]
        iface, _, layout = head.partition("/")
        shuffled = int("shuffled=True" in c["msg"])
        cfg = dict(iface=iface, layout=layout or "two-shards", shuffled=shuffled, epochs=3)
        if "two live repeating streams" in c["msg"]:
            cfg.update(two=True, steps=1 + max([int(k[4:]) for k in c["model"] if k.startswith("pull")] or [1]))
        viols.append(Violation(sig, f"{c['msg']} (model {c['model']})", dict(model=c["model"], cfg=cfg)))
    tfp = tf_pipeline_problems()
    if tfp:
        viols.append(Violation("C19:tf-pipeline-or-defaults", tfp[0], dict(kind="tf")))
    return Result(
        property_id=PROP, engine="symx",
        explanation="Bounded symbolic execution with z3 of the real repeating iteration paths: prefix length (up to 3 epochs + 1), "
                    "parallelism, buffer sizes and all random states are symbolic; proved per path: the stream does not end, every "
                    "element belongs to the split, unshuffled streams are the one-pass sequence repeated periodically, the Rust-"
                    "backed interface delivers a complete permutation per epoch and creates/releases one native iterator per epoch.",
        functions=FUNCS,
        bounds=dict(layouts=sorted({c["layout"] for c in cs}), prefix="<= 3 epochs + 1 (unshuffled, rust), <= 1 epoch + 1 (shuffled others)",
                    two_streams="train and test streams of one handle alive together, 4..8 pulls in every alternation pattern",
                    T="1..S+1", shuffle="0 or 1..2"),
        stats=st.as_dict(), samples=st.samples,
        assumptions=["LazyPool / executor / RustIter contracts as in C02", "tf.data repeat() semantics (recorded, not executed)"],
        outside=["tf.data runtime", "prefixes longer than the bound (periodicity is structural: itertools.cycle)"],
        violations=viols, inconclusive=st.inconclusive, harness_errors=errors,
        twin=dict(obligations_reached=st.proves),
        rule="one evaluation = one explored path (interface, layout, prefix length class, T, random index sequence)",
        evaluations=st.paths, distinct_nontrivial=st.paths - st.aborted,
    )


def real_tf_repeat_case():
    """Real TensorFlow, real tfrec files: the repeating stream (several batch sizes) must contain every example of the split
    in every epoch-sized window and be the one-pass sequence repeated when unshuffled."""
    import numpy as np
    from .. import fillerlab
    problems = []
    with common.scratch_dir("vt19tf_") as tmp:
        d = fillerlab.make_dataset(tmp / "ds", ft="tfrec", eps=4)
        with d.filler() as f:
            for v in range(10):
                f.write_example(values=fillerlab.example(v), split="train")
        for bs in (0, 1, 3, 4):
            ds = d.as_tfdataset("train", shuffle=0, batch_size=bs)  # repeat defaults to True
            got = []
            for x in ds.as_numpy_iterator():
                a = np.asarray(x["a"])
                got += [int(a[0])] if a.ndim == 1 else [int(r[0]) for r in a]
                if len(got) >= 25:
                    break
            bad = [i for i, v in enumerate(got) if v != i % 10]
            if len(got) < 25 or bad:
                problems.append(f"as_tfdataset(tfrec, shuffle=0, batch_size={bs}, repeat default): stream {got[:25]} is not 0..9 repeated")
    return problems


def replay(case):
    common.import_sedpack(need_tf=(case.get("kind") == "tf"))
    if case.get("kind") == "tf":
        p = real_tf_repeat_case()
        if p:
            return True, "real TensorFlow run: " + str(p[:2])
        p = tf_pipeline_problems()
        return bool(p), "recorded pipeline only (the real TF run did not show it): " + str(p)
    if case["cfg"].get("two"):
        cfg = case["cfg"]
        try:
            with common.scratch_dir("vt19_") as tmp:
                two_streams(ConcreteEngine(case["model"]), cfg, iterscen.build(tmp, cfg["layout"]))
        except CexFound as c:
            return True, f"reproduced with concrete values {case['model']}: {c.msg}; {real_two_streams(cfg)}"
        return False, "not reproduced"
    try:
        scenario(ConcreteEngine(case["model"]), case["cfg"])
    except CexFound as c:
        return True, f"reproduced with concrete values {case['model']}: {c.msg}"
    return False, "not reproduced"


def real_two_streams(cfg):
    """The same situation with the real decoders / thread pools (no stubs): two repeating streams pulled alternately."""
    import numpy as np
    try:
        with common.scratch_dir("vt19r_") as tmp:
            d, table, written = iterscen.build(tmp, cfg["layout"])
            kw = dict(repeat=True, shuffle=2 if cfg["shuffled"] else 0)
            mk = {"numpy": lambda sp: iter(d.as_numpy_iterator(split=sp, **kw)),
                  "concurrent": lambda sp: iter(d.as_numpy_iterator_concurrent(split=sp, file_parallelism=2, **kw)),
                  "rust": lambda sp: iter(d.as_numpy_iterator_rust(split=sp, file_parallelism=2, **kw))}.get(cfg["iface"])
            if mk is None:
                return "real run: not available for this interface"
            a, b = mk("train"), mk("test")
            own = {sp: {int(x["a"][0]) for x in d.as_numpy_iterator(split=sp, repeat=False, shuffle=0)} for sp in ("train", "test")}
            for i in range(12):
                for sp, it in (("train", a), ("test", b)):
                    v = int(np.asarray(next(it)["a"]).reshape(-1)[0])
                    if v not in own[sp]:
                        return f"real run: the {sp} stream yielded example {v} of the other split"
        return "real run with real threads: both streams stayed alive"
    except Exception as exc:  # noqa: BLE001
        return f"real run with real decoders and thread pools also fails: {type(exc).__name__}: {str(exc)[:100]}"
