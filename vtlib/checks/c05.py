"""C05 Integrity check accepts every committed dataset and detects every modification.

(a) Accepts: after every session of a writing history check() passes (also asserted inside C08's exploration).
(b) Detects: committed datasets from bounded histories (flat with two sessions, nested sub-directories, multi-writer;
    1-2 algorithms incl. a repeated one); the solver drives a FINITE FORK over (reachable file, tamper kind, handle):
    every shard file, every shard-list file, and the description (with its expected checksums supplied) is altered by
    bit flips (first/middle/last byte), truncation (to 0, by one byte), extension by one byte (whitespace for JSON so
    that it still parses), deletion, swap with a sibling file, rollback to an older committed version; then the REAL
    check() runs on the handle that already checked successfully before the tamper, and on a fresh handle; it must
    raise.  Honest note (DESIGN.md): after the collision-resistance assumption the remaining quantifier is finite; the
    byte-level 'every offset/length' quantifier is discharged by that assumption together with C16.
"""
from __future__ import annotations

import shutil
from pathlib import Path

from .. import common, fillerlab, par
from ..common import Result, Violation
from ..symx import CexFound, ConcreteEngine, explore

PROP = "C05"
FUNCS = [
    "sedpack.io.dataset_writing:DatasetWriting.check",
    "sedpack.io.dataset_writing:DatasetWriting._check_shard_list_info",
    "sedpack.io.dataset_writing:DatasetWriting.current_metadata_checksums",
    "sedpack.io.dataset_base:DatasetBase.shard_info_iterator",
    "sedpack.io.dataset_base:DatasetBase._shard_info_iterator",
    "sedpack.io.utils:hash_checksums",
]
HISTORIES = ["flat", "nested", "multi", "big"]
ALGS = [("sha256",), ("md5", "xxh64"), ("sha1", "sha1")]
SHARD_KINDS = ["flip-first", "flip-middle", "flip-last", "truncate-1", "truncate-0", "extend", "delete", "swap-sibling",
               "same-size-other-content"]
LIST_KINDS = ["append-whitespace", "flip-first", "flip-middle", "flip-last", "truncate-1", "delete", "rollback", "swap-sibling",
              "edit-digit"]
DESC_KINDS = ["append-whitespace", "flip-middle", "rollback", "edit-digit", "drop-algorithms", "drop-algorithms-and-splits"]


def _feed(dataset_filler, values, split):
    with dataset_filler as f:
        for v in values:
            f.write_example(values=fillerlab.example(v), split=split)
    return len(values)


def build(tmp: Path, history: str, algs):
    """Returns (dataset path, versions: {relpath: [older contents...]})."""
    from sedpack.io.dataset_filler import DatasetFiller
    attrs = None
    if history == "big":
        from sedpack.io import Attribute
        # shard files larger than the 128 KiB read buffer of the digest loop (modifications far from the start matter too)
        attrs = [Attribute(name="a", dtype="int32", shape=(2,)), Attribute(name="blob", dtype="int32", shape=(50_000,))]
    d = fillerlab.make_dataset(tmp / "ds", eps=2, hashes=algs, attrs=attrs)
    versions: dict[str, list[bytes]] = {}

    def snap():
        for p in d.path.rglob("*.json"):
            rel = str(p.relative_to(d.path))
            b = p.read_bytes()
            if not versions.get(rel) or versions[rel][-1] != b:
                versions.setdefault(rel, []).append(b)
    snap()
    v = 0
    if history == "flat":
        for _ in range(2):
            with d.filler() as f:
                for _ in range(3):
                    f.write_example(values=fillerlab.example(v), split="train")
                    v += 1
                f.write_example(values=fillerlab.example(v), split="test")
                v += 1
            snap()
    elif history == "big":
        import numpy as np
        with d.filler() as f:
            for _ in range(3):
                f.write_example(values={"a": np.array([v, v], np.int32), "blob": np.arange(50_000, dtype=np.int32) + v}, split="train")
                v += 1
        snap()
    elif history == "nested":
        for rel in ("a", "a", "a/c", "b"):
            with DatasetFiller(d, relative_path_from_split=Path(rel)) as f:
                for _ in range(2):
                    f.write_example(values=fillerlab.example(v), split="train")
                    v += 1
            snap()
    else:
        for _ in range(2):
            d.write_multiprocessing(feed_writer=_feed, custom_arguments=[([v, v + 1, v + 2], "train"), ([v + 3], "train")],
                                    single_process=True, consistency_check=False)
            v += 4
            snap()
    return d, versions


def reachable_files(d):
    import json
    root = d.path
    shards, lists = [], []

    def walk(rel):
        lists.append(rel)
        doc = json.loads((root / rel).read_text())
        for s in doc.get("shard_files", []):
            shards.append(s["file_infos"][0]["file_path"])
        for c in doc.get("children_shard_lists", []):
            walk(c["shard_list_info_file"]["file_path"])
    info = json.loads((root / "dataset_info.json").read_text())
    for sli in info["splits"].values():
        walk(sli["shard_list_info_file"]["file_path"])
    return shards, lists


def tamper(root: Path, rel: str, kind: str, siblings, versions):
    """Apply the modification; returns False when this kind does not apply to this file."""
    p = root / rel
    data = p.read_bytes()
    if kind.startswith("flip-"):
        if not data:
            return False
        i = {"first": 0, "middle": len(data) // 2, "last": len(data) - 1}[kind[5:]]
        b = bytearray(data)
        b[i] ^= 0x01
        p.write_bytes(bytes(b))
    elif kind == "truncate-1":
        p.write_bytes(data[:-1])
    elif kind == "truncate-0":
        p.write_bytes(b"")
    elif kind == "extend":
        p.write_bytes(data + b"\x00")
    elif kind == "append-whitespace":
        p.write_bytes(data + b"\n")
    elif kind == "delete":
        p.unlink()
    elif kind == "same-size-other-content":
        p.write_bytes(bytes((x + 1) % 256 for x in data))
    elif kind == "edit-digit":
        import re
        m = re.search(rb'"number_of_examples":\s*(\d)', data)
        if not m:
            return False
        i = m.start(1)
        new = data[:i] + (b"7" if data[i:i + 1] != b"7" else b"8") + data[i + 1:]
        p.write_bytes(new)
    elif kind in ("drop-algorithms", "drop-algorithms-and-splits"):
        import json
        doc = json.loads(data)
        doc["dataset_structure"]["hash_checksum_algorithms"] = []
        if kind.endswith("splits"):
            doc["splits"] = {}
        p.write_text(json.dumps(doc, indent=2))
    elif kind == "swap-sibling":
        sib = [s for s in siblings if s != rel and (root / s).read_bytes() != data]
        if not sib:
            return False
        q = root / sib[0]
        other = q.read_bytes()
        q.write_bytes(data)
        p.write_bytes(other)
    elif kind == "rollback":
        olds = [b for b in versions.get(rel, []) if b != data]
        if not olds:
            return False
        p.write_bytes(olds[-1])
    else:
        raise AssertionError(kind)
    return True


def scenario(e, cfg, built=None):
    """cfg: history, algs(index).  One path = one (file, kind, handle)."""
    common.import_sedpack()
    from sedpack.io import Dataset
    own = built is None
    ctx = common.scratch_dir("vt05_") if own else None
    tmp = ctx.__enter__() if own else None
    try:
        if own:
            d0, versions = build(tmp, cfg["history"], ALGS[cfg["algs"]])
            pristine = tmp / "pristine"
            shutil.copytree(d0.path, pristine)
            built = (d0.path, pristine, versions)
        root, pristine, versions = built
        # restore the pristine committed dataset
        shutil.rmtree(root)
        shutil.copytree(pristine, root)
        d = Dataset(root)
        expected_desc = d.current_metadata_checksums()
        try:
            d.check(show_progressbar=False, hash_checksums_values=expected_desc)  # (a) accepts
        except Exception as exc:  # noqa: BLE001
            e.fail(f"check() rejects the untouched committed dataset ({cfg}): {type(exc).__name__}: {str(exc)[:80]}",
                   dict(cfg=dict(cfg), kind="rejects-committed-dataset"))
        shards, lists = reachable_files(d)
        targets = [("shard", s) for s in shards] + [("list", l) for l in lists] + [("description", "dataset_info.json")]
        ftype, rel = targets[e.choice("file", len(targets))]
        kinds = {"shard": SHARD_KINDS, "list": LIST_KINDS, "description": DESC_KINDS}[ftype]
        kind = kinds[e.choice("kind", len(kinds))]
        fresh = e.choice("fresh_handle", 2)
        sib = shards if ftype == "shard" else lists
        if not tamper(root, rel, kind, sib, versions):
            return dict(skipped=(ftype, kind))
        which = ["the handle that checked successfully before", "a fresh handle"][fresh]
        try:
            h = Dataset(root) if fresh else d
            h.check(show_progressbar=False, hash_checksums_values=expected_desc)
        except Exception:  # noqa: BLE001 - any error is a detection
            e.prove(True, "modification detected")
            return dict(detected=(ftype, kind, which))
        idx = targets.index((ftype, rel))
        where = "nested" if rel.count("/") >= 2 else "top"
        e.fail(f"check() returned normally on {which} although {ftype} file {rel} was modified ({kind}); history={cfg['history']} "
               f"algorithms={ALGS[cfg['algs']]}", dict(cfg=dict(cfg), kind=f"undetected:{ftype}:{where}:{kind}:{'fresh' if fresh else 'same'}-handle",
                                                       target=idx))
    finally:
        if own:
            ctx.__exit__(None, None, None)


def _cell(cell):
    common.import_sedpack()
    with common.scratch_dir("vt05_") as tmp:
        d0, versions = build(tmp, cell["history"], ALGS[cell["algs"]])
        pristine = tmp / "pristine"
        shutil.copytree(d0.path, pristine)
        built = (d0.path, pristine, versions)
        return explore(lambda e: scenario(e, cell, built))


def run(tier, seed):
    common.import_sedpack()
    cs = [dict(history=h, algs=a) for h in HISTORIES for a in range(len(ALGS))]
    if tier == "quick":
        cs = [c for c in cs if not (c["history"] != "nested" and c["algs"] == 2) and not (c["history"] == "big" and c["algs"] != 0)]
    st, per_cell, errors = par.run_cells(_cell, cs)
    viols, seen = [], set()
    for c in st.cex:
        kind = (c.get("info") or {}).get("kind", c["msg"][:40])
        sig = f"C05:{kind}"
        if sig in seen:
            continue
        seen.add(sig)
        cfg = (c.get("info") or {}).get("cfg") or next(
            (x for x in cs if f"history={x['history']} " in c["msg"] and str(ALGS[x["algs"]]) in c["msg"]), cs[0])
        viols.append(Violation(sig, f"{c['msg']}", dict(model=c["model"], cfg=cfg)))
    return Result(
        property_id=PROP, engine="symx (finite fork)",
        explanation="The solver drives an exhaustive finite fork over (reachable file x modification kind x handle) for committed "
                    "datasets of three history shapes and several algorithm tuples; for each the real check() runs on real files "
                    "with real digests and must raise. The byte-level quantifier (every offset, every length, every other content) "
                    "is NOT enumerated: it is discharged by the collision-resistance assumption plus C16 (digest covers every byte); "
                    "this check decides that every reachable file is actually compared against its recorded digest on every handle.",
        functions=FUNCS,
        bounds=dict(histories=HISTORIES, algorithms=[list(a) for a in ALGS], shard_kinds=SHARD_KINDS, list_kinds=LIST_KINDS,
                    description_kinds=DESC_KINDS, handles=["same handle after a successful check", "fresh open"]),
        stats=st.as_dict(), samples=st.samples,
        assumptions=["hash functions are collision resistant (a modified file has a different digest)", "C16: the digest covers every byte",
                     "the expected checksums of the description are supplied by the caller (as the property states)"],
        outside=["modifications that keep every byte (none)", "files not reachable from the description"],
        violations=viols, inconclusive=st.inconclusive, harness_errors=errors,
        twin=dict(obligations_reached=st.proves, paths=st.paths),
        rule="one evaluation = one (dataset, file, modification kind, handle) case executed on the real check()",
        evaluations=st.paths, distinct_nontrivial=st.paths - st.aborted,
    )


def replay(case):
    e = ConcreteEngine(case["model"])
    try:
        scenario(e, case["cfg"])
    except CexFound as c:
        return True, f"reproduced on real files: {c.msg}"
    return False, "check() raised as required"
