"""C14 Iteration is lazy: read-ahead is bounded by the configured buffers (see vtlib/iterscen.py).

Monitors (pull counters in the token decoders and on the repeating shard-path source) are evaluated at EVERY
yield of the real generators; symbolic: shuffle-buffer size b, parallelism T, random states, take-count k, and
(finite fork) finite vs. repeating stream.  Bounds asserted (independent of the dataset length):
  sync:                 examples pulled from decoders - examples yielded <= b + 1
  unshuffled concurrent: shards opened - shards delivered <= T
  shuffled concurrent:   shards opened - shards delivered <= T (round robin) + W (lazy-pool window; the real pool's
                         2T+3 bound is the C13 pocomp query `read-ahead`)
  async:                 shards opened - shards delivered <= T
  rust:                  Python side reads nothing ahead (paths only) and starts the native reader with <= T threads;
                         native side (read-ahead <= threads): C15
  every path:            shard paths pulled from the repeating source - shards delivered <= S + 1 + the above
                         (S = number of shards: the shard-level shuffle buffer holds path STRINGS, not data)
"""
from __future__ import annotations

import itertools as real_itertools
import types

from .. import common, iterscen, par
from ..common import Result, Violation
from ..symx import And, CexFound, ConcreteEngine, explore
from . import c02

PROP = "C14"
FUNCS = c02.FUNCS
IFACES = ["numpy", "concurrent", "async", "rust"]
W = 2  # window of the lazy pool contract stub


class Limit(BaseException):
    pass


def scenario(e, cfg, built=None):
    common.import_sedpack()
    import sedpack.io.dataset_iteration as DI
    own = built is None
    ctx = common.scratch_dir("vt14_") if own else None
    tmp = ctx.__enter__() if own else None
    try:
        if own:
            built = iterscen.build(tmp, cfg["layout"])
        d, table, written = built
        iface, split = cfg["iface"], "train"
        tokens = iterscen.split_tokens(d, table, split)
        shard_of = {}
        for p, toks in table.items():
            for t in toks:
                shard_of[t] = p
        N = len(tokens)
        S = sum(1 for _ in d.shard_info_iterator(split))
        repeat = bool(cfg["repeat"])
        shuffled = bool(cfg["shuffled"])
        # repeating + shuffled streams fork at every pull (shard-level and example-level index): keep those small
        small = repeat and shuffled
        # the sync path forks only in the example-level buffer: there the buffer may also cover the whole split (b >= N)
        wide = small and iface == "numpy" and cfg["layout"] == "two-shards"
        b = e.fresh_int("shuffle", 1, (N + 1 if wide else 2) if small else N + 1) if shuffled else 0
        tiny = small and iface in ("concurrent", "async")  # + round-robin and pool-order forks at every element
        T = e.fresh_int("T", 1, 2 if tiny else S + 1)
        k = e.fresh_int("take", 1, (2 if (tiny or wide) else N + 1 if small else 2 * N + 1) if repeat else N)
        mon = iterscen.Monitor()
        cap = 6 * (N + S) + 40
        pulls = [0]

        def counting_cycle(it):
            for x in real_itertools.cycle(it):
                pulls[0] += 1
                if pulls[0] > cap:
                    raise Limit("repeating shard-path source drained without bound")
                yield x
        proxy = types.SimpleNamespace(**{n: getattr(real_itertools, n) for n in dir(real_itertools) if not n.startswith("_")})
        proxy.cycle = counting_cycle
        old_it = DI.itertools
        DI.itertools = proxy
        yielded = 0
        delivered = set()
        try:
            gen = iterscen.stream(e, d, table, iface, split=split, shuffle=b, T=T, repeat=repeat, mon=mon)
            for tok in gen:
                yielded += 1
                delivered.add(shard_of[tok])
                if len(mon.opened) > cap:
                    raise Limit("decoders opened shards without bound")
                # ---- obligations at this yield
                if iface == "numpy":
                    e.prove(mon.pulled - yielded <= b + 1,
                            f"numpy/{cfg['layout']} repeat={repeat}: {mon.pulled} examples pulled from shards when only {yielded} "
                            f"were yielded (buffer b)", dict(kind="numpy-example-read-ahead"))
                    slack = 1 if not shuffled else None  # shuffled: the example-level bound above is the claim
                elif iface == "concurrent":
                    slack = (T + W) if shuffled else T
                elif iface == "async":
                    slack = T
                else:
                    slack = 1
                # opened counts every open (a shard re-opened in a later epoch counts again): compare with epochs
                epoch_opens = len(mon.opened)
                need = len(delivered) if yielded <= N else None
                if need is not None and slack is not None:
                    e.prove(epoch_opens - need <= slack,
                            f"{iface}/{cfg['layout']} repeat={repeat} shuffled={shuffled}: {epoch_opens} shards opened when examples "
                            f"of only {need} shards were delivered (allowed slack: T/buffer dependent)",
                            dict(kind=f"{iface}-shard-read-ahead"))
                if repeat:
                    e.prove(pulls[0] <= epoch_opens + S + 1 + (slack if slack is not None else 1),
                            f"{iface}/{cfg['layout']}: {pulls[0]} shard paths taken from the repeating source, {epoch_opens} opened",
                            dict(kind=f"{iface}-path-read-ahead"))
                if iface == "rust" and mon.rust is not None:
                    # the native reader reads at most `threads` shards ahead (C15): the Python side must not ask for more
                    # reader threads than the caller configured, whatever the number of shards
                    for inst in mon.rust.instances:
                        e.prove(inst.threads <= T, f"rust/{cfg['layout']} repeat={repeat}: the native reader was started with "
                                f"{inst.threads} threads for file_parallelism={T} ({len(inst.files)} shard files): its read-ahead "
                                f"grows with the dataset, not with the configured parallelism", dict(kind="rust-threads-exceed-parallelism"))
                if yielded >= k:
                    break
            gen.close()
        except Limit as lim:
            e.fail(f"{iface}/{cfg['layout']} repeat={repeat} shuffled={shuffled}: {lim} (read-ahead not bounded by buffers)",
                   dict(kind=f"{iface}-unbounded-read-ahead"))
        except CexFound:
            raise
        except Exception as exc:  # noqa: BLE001
            e.fail(f"{iface}/{cfg['layout']}: raised {type(exc).__name__}: {str(exc)[:100]}", dict(kind=f"{iface}-raised-{type(exc).__name__}"))
        finally:
            DI.itertools = old_it
        want = min(int(k), N) if not repeat else int(k)
        e.prove(yielded == want, f"{iface}/{cfg['layout']} repeat={repeat}: stream ended after {yielded} elements, {want} requested",
                dict(kind=f"{iface}-stream-too-short"))
        return dict(iface=iface, yielded=yielded, opened=len(mon.opened))
    finally:
        if own:
            ctx.__exit__(None, None, None)


def real_pool_stalling_consumer(T, steps=12, total=400, slow_source=False, slow_f=False):
    """Concrete anchor on the REAL LazyPool with real threads: the consumer takes one result at a time and waits until the
    pool is quiescent (nothing more is pulled or mapped without the consumer) before taking the next.  At every such point
    inputs pulled - results taken must stay within 2T+3 (the pocomp bound), however many steps were made."""
    import importlib
    import threading
    import time
    import sedpack.io.itertools.lazy_pool as lp
    lp = importlib.reload(lp)
    pulled = [0]
    mapped = [0]

    def src():
        for i in range(total):
            pulled[0] += 1
            if slow_source:
                time.sleep(0.0003)  # an input iterable that releases the GIL (I/O): the workers keep up with the producer
            yield i

    def f(x):
        if slow_f:
            time.sleep(0.004)  # workers slower than the consumer: the result queue is empty whenever the consumer polls it
        mapped[0] += 1
        return x

    def quiescent():
        last = None
        stable = 0
        for _ in range(400):
            cur = (pulled[0], mapped[0])
            stable = stable + 1 if cur == last else 0
            last = cur
            if stable >= 8:
                return
            time.sleep(0.01)

    out = dict(worst=0, taken=0, hang=False)

    def consume():
        with lp.LazyPool(T) as pool:
            it = iter(pool.imap_unordered(f, src()))
            for k in range(steps):
                next(it)
                out["taken"] = k + 1
                if slow_f and (k + 1) % 6:
                    continue  # a burst of results taken at full speed, then a pause
                quiescent()
                out["worst"] = max(out["worst"], pulled[0] - (k + 1))
        out["done"] = True
    th = threading.Thread(target=consume, daemon=True)
    th.start()
    th.join(60)
    out["hang"] = th.is_alive()
    out["pulled"] = pulled[0]
    return out


def _real_pool_cell(cell):
    from ..symx import Stats
    common.import_sedpack()
    st = Stats()
    for T in cell["Ts"]:
        st.paths += 1
        st.proves += 1
        r = real_pool_stalling_consumer(T)
        r2 = real_pool_stalling_consumer(T, slow_source=True)
        if r2["hang"] or r2["worst"] > r["worst"]:
            r = r2
        r3 = real_pool_stalling_consumer(T, steps=24, slow_f=True)
        if r3["hang"] or r3["worst"] > r["worst"]:
            r = r3
        bound = 2 * T + 3
        if r["hang"] or r["worst"] > bound:
            what = (f"did not deliver {cell.get('steps', 12)} results within 60 s (pulled {r['pulled']} inputs)" if r["hang"] else
                    f"had pulled {r['worst']} inputs beyond the results taken (bound 2T+3 = {bound}) after {r['taken']} results")
            st.cex.append(dict(msg=f"real LazyPool({T}) with a consumer that waits for quiescence between results {what}: read-ahead "
                                   f"is not bounded by the thread count", model={}, info=dict(kind="lazy-pool-read-ahead-unbounded", T=T)))
        else:
            st.proved += 1
            st.concrete_proves += 1
            if len(st.samples) < 1:
                st.samples.append(dict(real_lazy_pool=dict(T=T, worst_read_ahead=r["worst"], bound=bound)))
    return st


def _cell(cell):
    common.import_sedpack()
    if cell.get("real_pool"):
        return _real_pool_cell(cell)
    with common.scratch_dir("vt14_") as tmp:
        built = iterscen.build(tmp, cell["layout"])
        return explore(lambda e: scenario(e, cell, built))


def cells(tier):
    out = []
    layouts = ["two-shards", "singles", "short-last"] + (["four-shards", "nested"] if tier == "thorough" else [])
    for iface in IFACES:
        for layout in layouts:
            for repeat in (0, 1):
                for shuffled in (0, 1):
                    if tier == "quick" and shuffled and layout == "short-last" and iface in ("concurrent", "async"):
                        continue
                    if tier == "quick" and repeat and shuffled and layout != "two-shards" and iface != "rust":
                        continue
                    if repeat and shuffled and layout in ("four-shards", "nested") and iface != "rust":
                        continue  # measured: > 900 s per cell (every pull forks on two random indices)
                    if shuffled and layout == "four-shards" and iface == "concurrent":
                        continue  # measured: 700 s alone (44 000 paths)
                    if shuffled and layout == "nested" and iface in ("concurrent", "async"):
                        continue  # measured: 780 s (async, 63 000 paths) and > 1500 s (concurrent) alone
                    out.append(dict(iface=iface, layout=layout, repeat=repeat, shuffled=shuffled))
    out.append(dict(real_pool=1, Ts=[1, 2, 3] if tier == "quick" else [1, 2, 3, 5, 8]))
    return out


def run(tier, seed):
    common.import_sedpack()
    cs = cells(tier)
    st, per_cell, errors = par.run_cells(_cell, cs)
    viols, seen = [], set()
    for c in st.cex:
        kind = (c.get("info") or {}).get("kind", c["msg"][:40])
        sig = f"{PROP}:{kind}"
        if sig in seen:
            continue
        seen.add(sig)
        if kind == "lazy-pool-read-ahead-unbounded":
            viols.append(Violation(sig, c["msg"], dict(real_pool_T=(c.get("info") or {}).get("T", 2))))
            continue
        head = c["msg"].split(":")[0].split(" ")[0]
        iface, _, layout = head.partition("/")
        cfg = dict(iface=iface, layout=layout or "two-shards", repeat=int("repeat=True" in c["msg"]),
                   shuffled=int("shuffle" in c["model"]))
        viols.append(Violation(sig, f"{c['msg']} (model {c['model']})", dict(model=c["model"], cfg=cfg)))
    return Result(
        property_id=PROP, engine="symx",
        explanation="Bounded symbolic execution with z3 of the real iteration generators with pull-counting monitors: buffer size, "
                    "parallelism, random states and the number of elements the consumer takes are symbolic; the stream is finite "
                    "or repeating (infinite); at every yield the number of examples/shards/paths read beyond what was delivered "
                    "is proved to be bounded by a formula over the buffer size and parallelism only, and taking k elements from the "
                    "infinite stream must terminate.",
        functions=FUNCS,
        bounds=dict(layouts=sorted({c["layout"] for c in cs if "layout" in c}), take="1..2N+1 (repeat) / 1..N", b="1..N+1", T="1..S+1", cells=len(cs)),
        stats=st.as_dict(), samples=st.samples,
        assumptions=["LazyPool read-ahead <= 2T+3 is the C13 pocomp query (the stub here uses window 2)",
                     "native reader read-ahead <= T is C15", "ThreadPoolExecutor.map evaluates only the batch it is given"],
        outside=["tf.data prefetching", "memory held by the consumer"],
        violations=viols, inconclusive=st.inconclusive, harness_errors=errors,
        twin=dict(obligations_reached=st.proves),
        rule="one evaluation = one explored path; obligations are evaluated at every yield of the path",
        evaluations=st.paths, distinct_nontrivial=st.paths - st.aborted,
    )


def replay(case):
    common.import_sedpack()
    if "real_pool_T" in case:
        T = case["real_pool_T"]
        for slow in (False, True):
            r = real_pool_stalling_consumer(T, slow_source=slow)
            if r["hang"] or r["worst"] > 2 * T + 3:
                return True, f"slow_source={slow}: {r}"
        r = real_pool_stalling_consumer(T, steps=24, slow_f=True)
        if r["hang"] or r["worst"] > 2 * T + 3:
            return True, f"slow mapped function, bursts of 6 results: {r}"
        return False, str(r)
    try:
        scenario(ConcreteEngine(case["model"]), case["cfg"])
    except CexFound as c:
        return True, f"reproduced with concrete values {case['model']}: {c.msg}"
    return False, "not reproduced"
