"""C03 Unshuffled iteration is deterministic and preserves write order (see vtlib/iterscen.py)."""
from __future__ import annotations

from .. import common, iterlab, iterscen, par
from ..common import Result, Violation
from ..symx import CexFound, ConcreteEngine, explore
from . import c02

PROP = "C03"
FUNCS = c02.FUNCS + [
    "sedpack.io.dataset_filler:_DatasetFillerContext.close_shard",
    "sedpack.io.dataset_writing:DatasetWriting.write_config",
    "sedpack.io.dataset_writing:DatasetWriting.write_multiprocessing",
    "sedpack.io.merge_shard_infos:merge_shard_infos",
    "sedpack.io.dataset_iteration:DatasetIteration.as_tfdataset",
    "sedpack.io.dataset_iteration:DatasetIteration.read_and_decode",
]
IFACES = ["numpy", "concurrent", "async", "rust", "tfdataset"]


def in_session_order(seq, written_split):
    """Every session's examples appear in the order in which they were written (relative order)."""
    pos = {v: i for i, v in enumerate(seq)}
    by_session = {}
    for si, v in written_split:
        by_session.setdefault(si, []).append(v)
    for si, vals in by_session.items():
        idx = [pos[v] for v in vals if v in pos]
        if idx != sorted(idx) or len(idx) != len(vals):
            return False, si, vals
    return True, None, None


def scenario(e, cfg, built=None):
    common.import_sedpack()
    from sedpack.io import Dataset
    own = built is None
    ctx = common.scratch_dir("vt03_") if own else None
    tmp = ctx.__enter__() if own else None
    try:
        if own:
            built = iterscen.build(tmp, cfg["layout"])
        d, table, written = built
        iface, split = cfg["iface"], cfg["split"]
        S = sum(1 for _ in d.shard_info_iterator(split))
        T = e.fresh_int("T", 1, S + 2)
        T2 = e.fresh_int("T_second_pass", 1, S + 2)
        reopen = e.choice("reopen", 2)
        try:
            first = list(iterscen.stream(e, d, table, iface, split=split, shuffle=0, T=T, repeat=False))
            d2 = Dataset(d.path) if reopen else d
            second = list(iterscen.stream(e, d2, table, iface, split=split, shuffle=0, T=T2, repeat=False))
            reference = list(iterscen.stream(e, Dataset(d.path), table, "numpy", split=split, shuffle=0, T=1, repeat=False))
        except CexFound:
            raise
        except Exception as exc:  # noqa: BLE001
            e.fail(f"{iface}/{cfg['layout']}/{split}: unshuffled pass raised {type(exc).__name__}: {str(exc)[:100]}",
                   dict(kind=f"{iface}-pass-raised-{type(exc).__name__}"))
        ok, si, vals = in_session_order(first, written[split])
        e.prove(ok, f"{iface}/{cfg['layout']}/{split}: examples {vals} of writing session {si} are not delivered in write order: {first}",
                dict(kind=f"{iface}-write-order-not-preserved"))
        e.prove(first == second, f"{iface}/{cfg['layout']}/{split}: second pass ({'reopened' if reopen else 'same handle'}, other "
                                 f"parallelism) yields {second}, first pass {first}", dict(kind=f"{iface}-passes-differ"))
        e.prove(first == reference, f"{iface}/{cfg['layout']}/{split}: sequence {first} differs from the sequential reader's "
                                    f"{reference}", dict(kind=f"{iface}-differs-from-sequential-reader"))
        return dict(iface=iface, seq=first)
    finally:
        if own:
            ctx.__exit__(None, None, None)


def pool_scenario(e, cfg):
    """One multi-writer call through the worker pool (contract stub of c09: workers finish in a solver-chosen order, arguments
    and results cross a pickle boundary): unshuffled iteration yields the call's examples in ARGUMENT order."""
    common.import_sedpack()
    import sedpack.io.dataset_writing as DW
    from sedpack.io import Dataset
    from . import c09
    from .. import fillerlab
    with common.scratch_dir("vt03p_") as tmp:
        d = fillerlab.make_dataset(tmp / "ds", eps=2, hashes=("md5",))
        W = cfg["writers"]
        loads, v = [], 100
        for w in range(W):
            ntr = e.choice(f"train_load{w}", 3) + 1
            loads.append((list(range(v, v + ntr)), [v + 10]))
            v += 20
        log = []
        old_pool = DW.Pool
        DW.Pool = c09.make_pool(e, log)
        try:
            d.write_multiprocessing(feed_writer=c09.feed, custom_arguments=[(w, tr, te) for w, (tr, te) in enumerate(loads)],
                                    consistency_check=False)
        except CexFound:
            raise
        except Exception as exc:  # noqa: BLE001
            e.fail(f"write_multiprocessing raised {type(exc).__name__}: {str(exc)[:100]}", dict(kind=f"pool-write-raised-{type(exc).__name__}"))
        finally:
            DW.Pool = old_pool
        what = f"{W} writers finishing in order {log[-1][1] if log else None}"
        for sp, idx in (("train", 0), ("test", 1)):
            want = [x for ld in loads for x in ld[idx]]
            for handle, label in ((d, "same handle"), (Dataset(d.path), "reopened")):
                got = [int(x["a"][0]) for x in handle.as_numpy_iterator(split=sp, repeat=False, shuffle=0)]
                e.prove(got == want, f"{what}: unshuffled iteration of {sp} ({label}) yields {got}, the writers wrote (argument order) {want}",
                        dict(kind="multi-writer-call-not-in-argument-order"))
        return dict(writers=W, order=log[-1][1] if log else None)


def tf_pipeline_case(layout):
    """as_tfdataset on a tfrec dataset with shuffle=0: the recorded pipeline must not contain anything that may reorder."""
    import sedpack.io.dataset_iteration as DI
    problems = []
    with common.scratch_dir("vt03t_") as tmp:
        d, table, written = iterscen.build(tmp, layout)
        d.dataset_structure.shard_file_type = "tfrec"
        rec = iterlab.RecTF()
        with iterlab.patched(DI, tf=rec, get_from_tfrecord=lambda desc: ("decode", len(desc))):
            ds = d.as_tfdataset("train", repeat=False, shuffle=0, batch_size=0, file_parallelism=4, parallelism=4)
        want = [str(d.path / s.file_infos[0].file_path) for s in d.shard_info_iterator("train")]
        if ds.source != "from_tensor_slices" or ds.payload != want:
            problems.append(f"tfrec pipeline starts from {ds.source} {ds.payload[:2]} instead of the shard paths in order")
        for name, a, k in ds.ops:
            if name == "shuffle":
                problems.append("shuffle op in the pipeline although shuffle=0")
            if name == "interleave":
                if k.get("cycle_length") != 1:
                    problems.append(f"interleave cycle_length={k.get('cycle_length')} with shuffle=0")
                if k.get("deterministic") is False:
                    problems.append("interleave deterministic=False with shuffle=0")
            if name == "map" and k.get("deterministic") is False:
                problems.append("map deterministic=False")
    return problems


def _cell(cell):
    common.import_sedpack()
    if cell.get("pool"):
        return explore(lambda e: pool_scenario(e, cell))
    with common.scratch_dir("vt03_") as tmp:
        built = iterscen.build(tmp, cell["layout"])
        return explore(lambda e: scenario(e, cell, built))


def cells(tier):
    layouts = ["short-last", "nested", "multi", "multi3", "three-splits", "four-shards"] + (["five-shards", "singles"] if tier == "thorough" else [])
    out = []
    for iface in IFACES:
        for layout in layouts:
            for sp in ("train", "test"):
                if sp == "test" and layout in ("four-shards", "singles"):
                    continue
                out.append(dict(iface=iface, layout=layout, split=sp))
    out.append(dict(pool=True, writers=2, iface="pool", layout="pool", split="train"))
    out.append(dict(pool=True, writers=3, iface="pool", layout="pool", split="train"))
    return out


def run(tier, seed):
    common.import_sedpack()
    cs = cells(tier)
    st, per_cell, errors = par.run_cells(_cell, cs)
    viols = c02.collect(st, PROP, cs)
    for v in viols:
        v.case["cfg"].pop("shuffled", None)
        if "multi-writer-call" in v.signature or "pool-write-raised" in v.signature:
            v.case["cfg"] = dict(pool=True, writers=sum(1 for k in v.case["model"] if k.startswith("train_load")))
    tfp = []
    for layout in ("short-last", "nested"):
        tfp += tf_pipeline_case(layout)
    if tier == "thorough":
        pr, err = iterscen.real_tf_anchor_subprocess()
        pr = [p for p in pr if "order" in p or "passes differ" in p]
        if pr:
            viols.append(Violation("C03:real-tf-anchor", "real TensorFlow run: " + pr[0], dict(kind="real-tf")))
        if err:
            errors.append(err)
    if tfp:
        viols.append(Violation("C03:tfrec-pipeline-may-reorder", tfp[0], dict(kind="tf-pipeline")))
    return Result(
        property_id=PROP, engine="symx",
        explanation="Bounded symbolic execution with z3 of the real unshuffled iteration paths on datasets written by the real filler "
                    "(interleaved splits, nested sub-directory sessions, multi-writer calls): file_parallelism of both passes is "
                    "symbolic, the second pass runs on the same or a reopened handle (solver fork); proved per path: in-session "
                    "write order, equality of passes, equality with the sequential reader (a T-independent oracle).  For tfrec "
                    "as_tfdataset the recorded tf.data pipeline must contain no reordering construct (TF's ordering contract).",
        functions=FUNCS,
        bounds=dict(layouts=sorted({c["layout"] for c in cs}), T="1..shards+2 (both passes)", cells=len(cs),
                    pool="one multi-writer call of 2..3 writers (1..3 train examples each) through the pool contract stub, every completion order"),
        stats=st.as_dict(), samples=st.samples,
        assumptions=["ThreadPoolExecutor contract (map in submission order; submit evaluates the call)", "RustIter contract (C15: input order)",
                     "tf.data: interleave(cycle_length=1) / map(deterministic) keep order (recorded, not executed)"],
        outside=["order across different sessions (not required by the property)", "TF runtime"],
        violations=viols, inconclusive=st.inconclusive, harness_errors=errors,
        twin=dict(obligations_reached=st.proves),
        rule="one evaluation = one explored path = (interface, layout, split, T-class of both passes, reopen bit)",
        evaluations=st.paths, distinct_nontrivial=st.paths - st.aborted,
    )


def replay(case):
    common.import_sedpack()
    if case.get("kind") == "real-tf":
        pr, err = iterscen.real_tf_anchor_subprocess()
        pr = [p for p in pr if "order" in p or "passes differ" in p]
        return bool(pr), str(pr[:2] or err)
    if case.get("kind") == "tf-pipeline":
        p = tf_pipeline_case("short-last") + tf_pipeline_case("nested")
        return bool(p), str(p)
    cfg = case["cfg"]
    if cfg.get("pool"):
        try:
            pool_scenario(ConcreteEngine(case["model"]), cfg)
        except CexFound as c:
            return True, f"reproduced with {case['model']}: {c.msg}"
        return False, "not reproduced"
    try:
        scenario(ConcreteEngine(case["model"]), cfg)
    except CexFound as c:
        # confirm with the real decoders and real threads where possible
        from sedpack.io import Dataset
        with common.scratch_dir("vt03r_") as tmp:
            d, table, written = iterscen.build(tmp, cfg["layout"])
            T = int(case["model"].get("T", 1))
            kw = dict(split=cfg["split"], repeat=False, shuffle=0)
            ref = [int(x["a"][0]) for x in d.as_numpy_iterator(**kw)]
            if cfg["iface"] == "concurrent":
                got = [int(x["a"][0]) for x in d.as_numpy_iterator_concurrent(file_parallelism=T, **kw)]
            elif cfg["iface"] == "rust":
                got = [int(x["a"][0]) for x in d.as_numpy_iterator_rust(file_parallelism=T, **kw)]
            else:
                got = ref
            ok, si, vals = in_session_order(got, written[cfg["split"]])
            real = (not ok) or got != ref
        return True, f"reproduced with concrete values {case['model']}: {c.msg} (real decoders/threads also show it: {real})"
    return False, "not reproduced"
