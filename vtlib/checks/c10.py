"""C10 Shards respect the configured size.

Real code driven: DatasetFiller / _DatasetFillerContext.write_example / close_shard / __exit__,
Shard.write/close, the real FlatBuffers shard writer and reader, Dataset.write_config, on a scratch
directory.  Symbolic: examples_per_shard E >= 1 (UNBOUNDED integer), number of writes n; finite forks
(driven by the solver): split of each write, custom-metadata argument of each write.
"""
from __future__ import annotations

from .. import common, fillerlab, par
from ..common import Result, Violation
from ..symx import And, CexFound, ConcreteEngine, Engine, explore

PROP = "C10"
# the last two are not fixed points of a JSON round trip (tuple -> list, int key -> str): equal arguments must still be
# recognised as "metadata did not change"
MD = [None, {"k": "A"}, {"k": "B"}, {"k": ("A", 1)}, {"k": {1: "B"}}]
FUNCS = [
    "sedpack.io.dataset_filler:_DatasetFillerContext.write_example",
    "sedpack.io.dataset_filler:_DatasetFillerContext.close_shard",
    "sedpack.io.dataset_filler:_DatasetFillerContext._get_new_shard",
    "sedpack.io.dataset_filler:DatasetFiller.__exit__",
    "sedpack.io.dataset_filler:DatasetFiller._update_infos",
    "sedpack.io.shard.shard:Shard.write",
    "sedpack.io.shard.shard:Shard.close",
    "sedpack.io.shard.shard_writer_flatbuffer:ShardWriterFlatBuffer._write",
    "sedpack.io.shard.shard_writer_flatbuffer:ShardWriterFlatBuffer.close",
    "sedpack.io.shard_file_metadata:ShardsList.write_config",
    "sedpack.io.dataset_writing:DatasetWriting.write_config",
    "sedpack.io.merge_shard_infos:merge_shard_infos",
]


def scenario(e, cfg):
    """One writing history.  cfg: nmax, sessions, splits(bool), md(bool), fixed (dict of pre-set choices)."""
    common.import_sedpack()
    concrete = e.concrete
    E = e.fresh_int("E", 1, None)
    with common.scratch_dir("vt10_") as tmp:
        d = fillerlab.make_dataset(tmp / "ds", eps=(E if concrete else 4))
        history = []
        try:
            for s in range(cfg["sessions"]):
                before = {sp: [si.file_infos[0].file_path for si in fillerlab.shard_infos(d, sp)] for sp in ("train", "test")}
                n = e.fresh_int(f"n{s}", 0, cfg["nmax"])
                if "n0" in cfg.get("fixed", {}) and s == 0:
                    e.assume(n == cfg["fixed"]["n0"])
                filler = fillerlab.open_filler(d, None if concrete else E)
                ctx = filler.__enter__()
                writes = {"train": [], "test": []}
                for i in range(n):
                    sp = "train"
                    if cfg["splits"]:
                        sp = ("train", "test")[e.choice(f"split{s}_{i}", 2)]
                    md = None
                    if cfg["md"]:
                        md = MD[e.choice(f"md{s}_{i}", cfg.get("mdn", 3))]
                    ctx.write_example(values=fillerlab.example(len(history)), split=sp,
                                      custom_metadata=(dict(md) if md else None))
                    writes[sp].append(md)
                    history.append((s, sp, md))
                filler.__exit__(None, None, None)
                # ---- oracle for this session
                for sp in ("train", "test"):
                    infos = fillerlab.shard_infos(d, sp)
                    new = [si for si in infos if si.file_infos[0].file_path not in before[sp]]
                    W = writes[sp]
                    counts = [si.number_of_examples for si in new]
                    for si in infos:
                        c = si.number_of_examples
                        e.prove(And(1 <= c, c <= E), f"shard count {c} not within [1, E]", dict(kind="count-outside-1..E"))
                        got = len(fillerlab.decode_values(d, si))
                        e.prove(got == c, f"recorded count {c} != {got} examples decodable from the file", dict(kind="count-vs-file"))
                    e.prove(sum(counts) == len(W), f"session wrote {len(W)} examples to {sp}, shards record {sum(counts)}", dict(kind="session-total"))
                    a = 0
                    for k, c in enumerate(counts[:-1]):
                        shard_w = W[a:a + c]
                        a += c
                        label = next((m for m in reversed(shard_w) if m), None)
                        nxt = W[a] if a < len(W) else None
                        closed_by_metadata_change = bool(label and nxt and nxt != label)
                        if not closed_by_metadata_change:
                            e.prove(c == E, f"non-last shard #{k} of session {s}/{sp} holds {c} != E examples "
                                            f"although the metadata did not change", dict(kind="non-last-shard-not-full"))
        except CexFound:
            raise
        except Exception as exc:  # noqa: BLE001 - engine control flow is BaseException
            e.fail(f"writing session raised {type(exc).__name__}: {str(exc)[:120]}", dict(kind=f"session-raised-{type(exc).__name__}"))
        return dict(writes=len(history))


def _cell(cell):
    return explore(lambda e: scenario(e, cell))


def cells(tier):
    out = []
    if tier == "quick":
        for n0 in range(0, 11):
            out.append(dict(name="single-split", nmax=10, sessions=1, splits=False, md=False, fixed={"n0": n0}))
        out.append(dict(name="two-sessions", nmax=4, sessions=2, splits=False, md=False))
        for n0 in range(0, 6):
            out.append(dict(name="interleaved-splits", nmax=5, sessions=1, splits=True, md=False, fixed={"n0": n0}))
        for n0 in range(0, 5):
            out.append(dict(name="metadata", nmax=4, sessions=1, splits=False, md=True, mdn=4, fixed={"n0": n0}))
    else:
        for n0 in range(0, 17):
            out.append(dict(name="single-split", nmax=16, sessions=1, splits=False, md=False, fixed={"n0": n0}))
        for n0 in range(0, 7):
            out.append(dict(name="two-sessions", nmax=6, sessions=2, splits=False, md=False, fixed={"n0": n0}))
        for n0 in range(0, 9):
            out.append(dict(name="interleaved-splits", nmax=8, sessions=1, splits=True, md=False, fixed={"n0": n0}))
        for n0 in range(0, 7):
            out.append(dict(name="metadata", nmax=6, sessions=1, splits=False, md=True, fixed={"n0": n0}))
        for n0 in range(0, 5):
            out.append(dict(name="metadata (incl. non-JSON-stable values)", nmax=4, sessions=1, splits=False, md=True, mdn=5, fixed={"n0": n0}))
        for n0 in range(0, 5):
            out.append(dict(name="metadata+splits", nmax=4, sessions=1, splits=True, md=True, fixed={"n0": n0}))
        for n0 in range(0, 4):
            out.append(dict(name="metadata two sessions", nmax=3, sessions=2, splits=False, md=True, fixed={"n0": n0}))
    return out


def run(tier, seed):
    common.import_sedpack()
    cs = cells(tier)
    st, per_cell, errors = par.run_cells(_cell, cs)
    viols = []
    for c in st.cex:
        m = c["model"]
        sig = "C10:" + (c.get("info") or {}).get("kind", c["msg"][:40])
        viols.append(Violation(signature=sig, description=f"{c['msg']} with {m}",
                               case=dict(model=m, cfg=_cfg_for(m, cs))))
    return Result(
        property_id=PROP, engine="symx",
        explanation="Bounded symbolic execution of the real filler/shard/FlatBuffers-writer code with z3: "
                    "examples_per_shard E is an unbounded symbolic integer >= 1; every feasible path (write count, "
                    "split interleaving, metadata sequence within the bounds) is explored and on each path the size "
                    "obligations are proved for all E on that path (unsat of path-condition and not phi).",
        functions=FUNCS,
        bounds=dict(E=">=1 (unbounded)", cells=[{k: v for k, v in c.items()} for c in cs][:60]),
        stats=st.as_dict(), samples=st.samples,
        assumptions=["z3 5.1 is sound", "uuid4 gives distinct names", "scratch file system behaves (no faults)",
                     "examples_per_shard reaches the filler through dataset_structure.examples_per_shard (DatasetView hands "
                     "the filler a structure copy holding the symbolic value)"],
        outside=["more writes per session than the bound", "npz/tfrec writers (same filler code; see C18)",
                 "sub-directory fillers and multi-writer sessions (C04/C08)"],
        violations=_dedup(viols), inconclusive=st.inconclusive, harness_errors=errors,
        twin=dict(obligations_reached=st.proves, paths_reaching_end=len(st.samples) > 0),
        rule="one evaluation = one explored path (a class of inputs: all E satisfying the path condition, one write "
             "sequence); non-trivial = path reached at least one obligation",
        evaluations=st.paths, distinct_nontrivial=st.paths - st.aborted,
    )


def _cfg_for(model, cs):
    # the model names tell which variables were used; replay needs sessions/splits/md flags
    sessions = 1 + max([int(k[1:]) for k in model if k.startswith("n") and k[1:].isdigit()] or [0])
    return dict(nmax=64, sessions=sessions, splits=any(k.startswith("split") for k in model),
                md=any(k.startswith("md") for k in model), mdn=5)


def _dedup(vs):
    seen, out = set(), []
    for v in vs:
        if v.signature not in seen:
            seen.add(v.signature)
            out.append(v)
    return out


def replay(case):
    e = ConcreteEngine(case["model"])
    try:
        scenario(e, case["cfg"])
    except CexFound as c:
        return True, f"reproduced on the real code with concrete values {case['model']}: {c.msg}"
    return False, "the concrete run satisfied the oracle"
