"""C11 Shard-level custom metadata describes exactly the examples it labels.

Real code driven: the filler (write_example, close_shard, __exit__), Shard, the real fb writer/reader,
shard_paths_dataset + as_numpy_iterator (shard_filter).  Symbolic: examples_per_shard E >= 1 (unbounded),
number of writes; finite forks driven by the solver: per write the metadata argument (absent / A / B [/ C]),
and whether the caller re-uses the previously passed dict object mutated in place (also a nested mutation).
"""
from __future__ import annotations

import copy

from .. import common, fillerlab, par
from ..common import Result, Violation
from ..symx import CexFound, ConcreteEngine, explore

PROP = "C11"
# index 3 is the EMPTY dict: "no metadata" passed as an object (e.g. the caller's dict after .clear())
VALUES = [None, {"k": {"v": "A"}, "t": 1}, {"k": {"v": "B"}, "t": 1}, {}, {"k": {"v": "C"}, "t": 2}]
FUNCS = [
    "sedpack.io.dataset_filler:_DatasetFillerContext.write_example",
    "sedpack.io.dataset_filler:_DatasetFillerContext.close_shard",
    "sedpack.io.dataset_filler:DatasetFiller.__exit__",
    "sedpack.io.shard.shard:Shard.write",
    "sedpack.io.shard.shard:Shard.close",
    "sedpack.io.dataset_iteration:DatasetIteration.shard_paths_dataset",
    "sedpack.io.dataset_iteration:DatasetIteration.as_numpy_iterator",
    "sedpack.io.dataset_base:DatasetBase._shard_info_iterator",
]


def _mutate_in_place(obj: dict, target: dict):
    """The caller 'updates' the object it passed earlier so that it now equals target, changing nested
    containers in place where they exist (so a shallow copy kept by the library is not enough)."""
    for k in list(obj):
        if k not in target:
            del obj[k]
    for k, v in target.items():
        if isinstance(v, dict) and isinstance(obj.get(k), dict):
            _mutate_in_place(obj[k], v)
        else:
            obj[k] = copy.deepcopy(v)


def scenario(e, cfg):
    common.import_sedpack()
    concrete = e.concrete
    E = e.fresh_int("E", 1, None)
    nvals = cfg["values"]
    with common.scratch_dir("vt11_") as tmp:
        d = fillerlab.make_dataset(tmp / "ds", eps=(E if concrete else 4))
        n = e.fresh_int("n", 0, cfg["nmax"])
        if "n" in cfg.get("fixed", {}):
            e.assume(n == cfg["fixed"]["n"])
        written = []  # (index, split, value at the time of the write (deep copy) or None)
        obj = None
        try:
            filler = fillerlab.open_filler(d, None if concrete else E)
            ctx = filler.__enter__()
            for i in range(n):
                sp = ("train", "test")[e.choice(f"split{i}", 2)] if cfg["splits"] else "train"
                if i == 0 and "md0" in cfg.get("fixed", {}):
                    v = VALUES[cfg["fixed"]["md0"]]
                else:
                    v = VALUES[e.choice(f"md{i}", nvals)]
                arg = None
                if v is not None:
                    reuse = obj is not None and (len(v) > 0 or len(obj) > 0) and e.choice(f"reuse{i}", 2) == 1
                    if reuse:
                        _mutate_in_place(obj, v)
                    else:
                        obj = copy.deepcopy(v)
                    arg = obj
                ctx.write_example(values=fillerlab.example(i), split=sp, custom_metadata=arg)
                written.append((i, sp, copy.deepcopy(v)))
            # the caller may also change its object after the last write, before the context is left
            if obj is not None:
                _mutate_in_place(obj, {"k": {"v": "Z"}, "t": 9})
            filler.__exit__(None, None, None)
        except CexFound:
            raise
        except Exception as exc:  # noqa: BLE001
            e.fail(f"writing session raised {type(exc).__name__}: {str(exc)[:120]}",
                   dict(kind=f"session-raised-{type(exc).__name__}"))
        # ---- oracle
        d2 = type(d)(d.path)  # what a reader sees after reopening
        for sp in ("train", "test"):
            mine = [(i, v) for (i, s, v) in written if s == sp]
            if not mine:
                continue
            where = {}
            for si in fillerlab.shard_infos(d2, sp):
                for val in fillerlab.decode_values(d2, si):
                    where[val] = si
            for i, v in mine:
                e.prove(i in where, f"example {i} not found in any shard of {sp}", dict(kind="example-lost"))
                if v:
                    rec = where[i].custom_metadata
                    e.prove(rec == v, f"example {i} was written with custom_metadata {v} but its shard records {rec}",
                            dict(kind="label-differs-from-value-at-write-time"))
            for v in [x for x in VALUES[1:nvals] if x]:
                want = {i for i, vv in mine if vv == v}
                if not want:
                    continue
                got = set(fillerlab.read_split(d2, sp, shard_filter=lambda s, v=v: s.custom_metadata == v))
                e.prove(want <= got, f"selecting shards with metadata {v} misses examples {sorted(want - got)}",
                        dict(kind="filter-misses-examples"))
                foreign = {i for i, vv in mine if vv and vv != v} & got
                e.prove(not foreign, f"selecting shards with metadata {v} returns examples {sorted(foreign)} written under "
                                     f"other metadata", dict(kind="filter-returns-foreign-examples"))
        return dict(writes=[(s, (v or {}).get("k")) for _, s, v in written])


def _cell(cell):
    return explore(lambda e: scenario(e, cell))


def cells(tier):
    out = []
    if tier == "quick":
        for n in range(0, 5):
            out.append(dict(name="A/B + in-place reuse", nmax=4, values=3, splits=False, fixed={"n": n}))
        for n in range(0, 4):
            out.append(dict(name="A/B/{} + in-place reuse", nmax=3, values=4, splits=False, fixed={"n": n}))
        for n in range(0, 4):
            out.append(dict(name="two splits", nmax=3, values=3, splits=True, fixed={"n": n}))
    else:
        # measured: ~30 ms per path; a cell must stay far below the 900 s cell budget
        for n in range(0, 5):
            out.append(dict(name="A/B + in-place reuse", nmax=5, values=3, splits=False, fixed={"n": n}))
        for md0 in range(3):
            out.append(dict(name="A/B + in-place reuse", nmax=5, values=3, splits=False, fixed={"n": 5, "md0": md0}))
        for n in range(0, 4):
            out.append(dict(name="A/B/{} + in-place reuse", nmax=4, values=4, splits=False, fixed={"n": n}))
        for md0 in range(4):
            out.append(dict(name="A/B/{} + in-place reuse", nmax=4, values=4, splits=False, fixed={"n": 4, "md0": md0}))
        for md0 in range(5):
            out.append(dict(name="A/B/{}/C + in-place reuse", nmax=3, values=5, splits=False, fixed={"n": 3, "md0": md0}))
        for n in range(0, 4):
            out.append(dict(name="two splits", nmax=3, values=4, splits=True, fixed={"n": n}))
    return out


def run(tier, seed):
    common.import_sedpack()
    cs = cells(tier)
    # biggest cells first for load balance
    cs.sort(key=lambda c: -c["fixed"]["n"])
    st, per_cell, errors = par.run_cells(_cell, cs)
    viols, seen = [], set()
    for c in st.cex:
        kind = (c.get("info") or {}).get("kind", c["msg"][:40])
        sig = f"C11:{kind}"
        if sig in seen:
            continue
        seen.add(sig)
        m = c["model"]
        viols.append(Violation(sig, f"{c['msg']} (model {m})", dict(model=m, cfg=dict(
            nmax=64, values=5, splits=any(k.startswith("split") for k in m)))))
    return Result(
        property_id=PROP, engine="symx",
        explanation="Bounded symbolic execution of the real filler with z3: E is an unbounded symbolic integer, every metadata "
                    "sequence within the bounds (absent/A/B[/C] per write, fresh object or the previous object mutated in place, "
                    "including nested mutation and a mutation after the last write) is a solver-driven fork; on every path the "
                    "label of the shard holding each labelled example is compared with the harness's own deep copy of the value "
                    "at write time, and shard_filter selection is run through the real reader.",
        functions=FUNCS, bounds=dict(E=">=1 (unbounded)", cells=cs),
        stats=st.as_dict(), samples=st.samples,
        assumptions=["z3 sound", "documented retroactive labelling of unlabelled examples is allowed (not asserted)",
                     "metadata values are JSON-representable dicts"],
        outside=["more writes than the bound", "npz/tfrec writers (the filler code is format independent)"],
        violations=viols, inconclusive=st.inconclusive, harness_errors=errors,
        twin=dict(obligations_reached=st.proves),
        rule="one evaluation = one explored path = one (metadata/reuse/split sequence, E-class); non-trivial = reached an obligation",
        evaluations=st.paths, distinct_nontrivial=st.paths - st.aborted,
    )


def replay(case):
    e = ConcreteEngine(case["model"])
    try:
        scenario(e, case["cfg"])
    except CexFound as c:
        return True, f"reproduced on the real code with {case['model']}: {c.msg}"
    return False, "the concrete run satisfied the oracle"
