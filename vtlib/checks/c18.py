"""C18 Write-time validation is all-or-nothing and never poisons a shard.

Real code, real libraries, real files: ShardWriterBase.write, the fb / npz (/ tfrec, thorough) writers and readers,
Shard.write/close, the filler.  Symbolic: examples_per_shard E >= 1 (unbounded; decides whether the bad write is the
first of a shard, in the middle, or the last).  Solver-driven finite forks: position p of the bad write in a sequence
of <= n writes, which attribute is wrong (first / middle / last / missing), the kind of violation (shape, rank,
unsafe dtype, foreign dtype, wrong container, missing), and the custom-metadata argument of the writes around p.
Oracle: a REJECTED write (the call raised) leaves no trace - the session continues, reopening yields exactly the
other writes with their values and metadata-independent counts; an ACCEPTED write keeps the dataset decodable.
"""
from __future__ import annotations

import numpy as np

from .. import common, fillerlab, metaoracle, par
from ..common import Result, Violation
from ..symx import CexFound, ConcreteEngine, explore

PROP = "C18"
FUNCS = [
    "sedpack.io.shard.shard_writer_base:ShardWriterBase.write",
    "sedpack.io.shard.shard_writer_flatbuffer:ShardWriterFlatBuffer._write",
    "sedpack.io.shard.shard_writer_flatbuffer:ShardWriterFlatBuffer.save_numpy_vector_as_bytearray",
    "sedpack.io.shard.shard_writer_flatbuffer:ShardWriterFlatBuffer.close",
    "sedpack.io.shard.shard_writer_np:ShardWriterNP._write",
    "sedpack.io.shard.shard_writer_np:ShardWriterNP.close",
    "sedpack.io.tfrec.tfdata:to_tfrecord",
    "sedpack.io.shard.shard:Shard.write",
    "sedpack.io.shard.shard:Shard.close",
    "sedpack.io.dataset_filler:_DatasetFillerContext.write_example",
    "sedpack.io.dataset_filler:DatasetFiller.__exit__",
]
ATTRS = [("a", "int32", (2,)), ("b", "float32", (2, 2)), ("c", "uint8", ())]
KINDS = ["shape", "rank", "unsafe-dtype", "foreign-dtype", "wrong-container", "missing"]
MD = [None, {"k": "A"}, {"k": "B"}]


def good(i):
    return {"a": np.array([i, i + 100], np.int32), "b": np.full((2, 2), i + 0.5, np.float32), "c": np.uint8(i % 200)}


def bad(i, attr_index, kind):
    v = good(i)
    name, dtype, shape = ATTRS[attr_index]
    if kind == "missing":
        del v[name]
    elif kind == "shape":
        v[name] = np.zeros(tuple(s + 1 for s in shape) or (3,), dtype)
    elif kind == "rank":
        v[name] = np.zeros(shape + (1,), dtype)
    elif kind == "unsafe-dtype":
        v[name] = (np.full(shape, 1.5, np.float64) if dtype != "float32" else np.full(shape, 2 ** 40 + 1, np.int64))
    elif kind == "foreign-dtype":
        v[name] = np.full(shape, "xy", dtype="<U2") if shape else "xy"
    elif kind == "wrong-container":
        v[name] = {"not": "an array"}
    return v


def same(x, y):
    try:
        return np.array_equal(np.asarray(x), np.asarray(y))
    except Exception:  # noqa: BLE001
        return False


def scenario(e, cfg):
    common.import_sedpack(need_tf=(cfg["ft"] == "tfrec"))
    from sedpack.io import Attribute, Dataset
    concrete = e.concrete
    ft = cfg["ft"]
    E = e.fresh_int("E", 1, None)
    n = cfg["n"]
    p = e.choice("bad_position", n)
    attr_index = e.choice("bad_attribute", len(ATTRS))
    kind = KINDS[e.choice("violation", len(KINDS))]
    with common.scratch_dir("vt18_") as tmp:
        attrs = [Attribute(name=nm, dtype=dt, shape=sh) for nm, dt, sh in ATTRS]
        d = fillerlab.make_dataset(tmp / "ds", ft=ft, eps=(E if concrete else 4), attrs=attrs)
        accepted = []
        rejected_p = False
        what = f"{ft}: write #{p} of {n} with {kind} violation in attribute '{ATTRS[attr_index][0]}'"
        try:
            filler = fillerlab.open_filler(d, None if concrete else E)
            ctx = filler.__enter__()
            escaped = None
            for i in range(n):
                md = MD[e.choice(f"md{i}", 3)] if (cfg["md"] and abs(i - p) <= 1) else None
                if i == p:
                    try:
                        ctx.write_example(values=bad(i, attr_index, kind), split="train", custom_metadata=(dict(md) if md else None))
                        accepted.append((i, "bad"))
                    except Exception as rejection:  # noqa: BLE001 - the writer rejected the write
                        rejected_p = True
                        # the caller either skips the bad example and goes on, or lets the error end the `with` block
                        if not cfg["md"] and e.choice("error_leaves_the_with_block", 2):
                            escaped = rejection
                            what += " (the error leaves the filler's with-block)"
                            break
                else:
                    ctx.write_example(values=good(i), split="train", custom_metadata=(dict(md) if md else None))
                    accepted.append((i, "good"))
            if escaped is not None:
                filler.__exit__(type(escaped), escaped, escaped.__traceback__)
            else:
                filler.__exit__(None, None, None)
        except CexFound:
            raise
        except Exception as exc:  # noqa: BLE001
            if rejected_p:
                e.fail(f"{what} was rejected, but the session then died with {type(exc).__name__}: {str(exc)[:90]}",
                       dict(kind="session-dies-after-rejected-write", ft=ft))
            else:
                e.fail(f"{what} was ACCEPTED, but the session then died with {type(exc).__name__}: {str(exc)[:90]} "
                       f"(accepted-but-unwritable)", dict(kind=f"accepted-write-kills-session:{ft}:{kind}:{ATTRS[attr_index][1]}", ft=ft))
        # ---- read back
        try:
            d2 = Dataset(d.path)
            got = list(d2.as_numpy_iterator(split="train", repeat=False, shuffle=0)) if "train" in d2._dataset_info.splits else []
        except Exception as exc:  # noqa: BLE001
            if rejected_p:
                e.fail(f"{what} was rejected, yet the dataset cannot be read afterwards: {type(exc).__name__}: {str(exc)[:90]}",
                       dict(kind="rejected-write-poisons-shard", ft=ft))
            e.fail(f"{what} was ACCEPTED and the dataset is undecodable afterwards: {type(exc).__name__}: {str(exc)[:90]}",
                   dict(kind=f"accepted-but-undecodable:{ft}:{kind}:{ATTRS[attr_index][1]}", ft=ft))
        e.prove(len(got) == len(accepted), f"{what} ({'rejected' if rejected_p else 'accepted'}): {len(accepted)} writes were accepted "
                                           f"but {len(got)} examples are read back", dict(kind="count-differs-from-accepted-writes", ft=ft))
        goods = [i for i, k in accepted if k == "good"]
        gi = 0
        # "previously and subsequently written examples read back unchanged" is required after a REJECTED write; an accepted
        # write only has to keep the dataset decodable (npz does not enforce dtypes and may re-type a column: not C18's business)
        for ex, (i, k) in zip(got, accepted):
            if k == "good" and rejected_p:
                w = good(i)
                ok = all(same(ex[nm], w[nm]) for nm, _, _ in ATTRS)
                e.prove(ok, f"{what} ({'rejected' if rejected_p else 'accepted'}): the good example #{i} reads back changed: "
                            f"{ {nm: np.asarray(ex[nm]).tolist() for nm, _, _ in ATTRS} }", dict(kind="other-example-changed", ft=ft))
        problems = metaoracle.audit(d2, decode_counts=(ft != "tfrec"))
        e.prove(not problems, f"{what}: metadata counts are off afterwards: {problems[:2]}", dict(kind="counts-include-rejected-write", ft=ft))
        return dict(ft=ft, p=p, kind=kind, rejected=rejected_p)


DTYPES = ["bool", "int8", "uint8", "int16", "uint16", "int32", "uint32", "int64", "uint64", "float16", "float32", "float64",
          "str", "bytes", "str[2]", "bytes[2]"]


def declaration_case(ft, dtype):
    """A well-typed write for an attribute DECLARED with `dtype`: either the format refuses it at write time, or the
    dataset stays decodable (finite fork over declarations the format supports and those it does not).
    `str[2]` / `bytes[2]` are the variable-size types declared with a non-scalar shape."""
    from sedpack.io import Attribute, Dataset
    vector = dtype.endswith("[2]")
    dtype = dtype[:-3] if vector else dtype
    shape = () if (dtype in ("str", "bytes") and not vector) else (2,)
    if vector and dtype == "str":
        vals = [np.array(["héllo", ""]), np.array(["a", "bcd"])]
    elif vector:
        vals = [np.array([b"ab", b""]), np.array([b"a", b"bcd"])]
    elif dtype == "str":
        vals = ["héllo", ""]
    elif dtype == "bytes":
        vals = [b"ab\x00c", b""]
    else:
        vals = [np.array([1, 0], dtype), np.array([0, 1], dtype)]
    with common.scratch_dir("vt18d_") as tmp:
        try:
            d = fillerlab.make_dataset(tmp / "ds", ft=ft, eps=2, attrs=[Attribute(name="x", dtype=dtype, shape=shape),
                                                                          Attribute(name="a", dtype="int32", shape=(2,))])
            with d.filler() as f:
                for i, v in enumerate(vals):
                    f.write_example(values={"x": v, "a": np.array([i, i], np.int32)}, split="train")
        except Exception as exc:  # noqa: BLE001
            return dict(outcome="rejected", how=type(exc).__name__)
        try:
            got = list(Dataset(d.path).as_numpy_iterator(split="train", repeat=False, shuffle=0))
        except Exception as exc:  # noqa: BLE001
            return dict(outcome="undecodable", how=f"{type(exc).__name__}: {str(exc)[:80]}")
        return dict(outcome="ok" if len(got) == len(vals) else "undecodable", how=f"{len(got)} examples")


def _decl_cell(cell):
    from ..symx import Stats
    common.import_sedpack(need_tf=(cell["ft"] == "tfrec"))
    st = Stats()
    for dt in DTYPES:
        r = declaration_case(cell["ft"], dt)
        st.paths += 1
        st.proves += 1
        if r["outcome"] == "undecodable":
            st.cex.append(dict(msg=f"{cell['ft']}: an attribute declared {dt} accepts well-typed writes but the dataset is then "
                                   f"undecodable ({r['how']})", model={},
                               info=dict(kind=f"declared-dtype-accepted-but-undecodable:{cell['ft']}:{dt}", ft=cell["ft"], decl=dt)))
        else:
            st.proved += 1
            st.concrete_proves += 1
            if len(st.samples) < 3:
                st.samples.append(dict(format=cell["ft"], declared=dt, **r))
    return st


def _cell(cell):
    if cell["ft"] == "tfrec" and not cell.get("_in_subprocess"):
        # TFRecord needs the real TensorFlow: a fresh interpreter (pool workers are forked with the TF stub loaded)
        import base64
        import json
        import pickle
        import subprocess
        import sys
        r = subprocess.run([sys.executable, "-m", "vtlib.checks.c18", json.dumps(dict(cell, _in_subprocess=True))],
                           capture_output=True, text=True, timeout=3400, cwd=str(common.VERIF))
        for line in r.stdout.split("\n"):
            if line.startswith("RESULT "):
                return pickle.loads(base64.b64decode(line[7:]))
        from ..symx import Stats
        st = Stats()
        st.inconclusive.append("TFRecord sub-process failed: " + r.stderr[-300:])
        return st
    if cell.get("declarations"):
        return _decl_cell(cell)
    return explore(lambda e: scenario(e, cell))


def cells(tier):
    out = []
    for ft in (("fb", "npz") if tier == "quick" else ("fb", "npz", "tfrec")):
        out.append(dict(ft=ft, n=3, md=True))
        out.append(dict(ft=ft, n=(4 if tier == "thorough" else 2), md=False))  # incl. the error leaving the with-block
        out.append(dict(ft=ft, declarations=True))
    return out


def run(tier, seed):
    cs = cells(tier)
    common.import_sedpack(need_tf=False)
    # split each cell by the violation kind for parallelism
    st, per_cell, errors = par.run_cells(_cell, cs)
    viols, seen = [], set()
    for c in st.cex:
        info = c.get("info") or {}
        kind = info.get("kind", c["msg"][:40])
        sig = f"{PROP}:{kind}"
        if sig in seen:
            continue
        seen.add(sig)
        if "decl" in info:
            viols.append(Violation(sig, c["msg"], dict(declaration=info["decl"], ft=info["ft"])))
            continue
        viols.append(Violation(sig, f"{c['msg']} (model {c['model']})", dict(model=c["model"], cfg=dict(
            ft=info.get("ft", c["msg"].split(":")[0]), n=max(3, 1 + int(c["model"].get("bad_position", 0))),
            md=any(k.startswith("md") for k in c["model"])))))
    return Result(
        property_id=PROP, engine="symx",
        explanation="Bounded symbolic execution with z3 of write sequences through the real filler and the real shard writers/readers "
                    "on real files: examples_per_shard is an unbounded symbolic integer, so the bad write is the first of a shard, "
                    "in the middle or the last one on different paths; the position, the offending attribute, the violation kind and "
                    "the metadata arguments around it are solver-driven finite forks explored exhaustively.",
        functions=FUNCS,
        bounds=dict(writes="3 quick / 4 thorough", attributes=ATTRS, kinds=KINDS, formats=sorted({c["ft"] for c in cs}),
                    metadata="absent/A/B on the writes at p-1, p, p+1", E=">=1 unbounded"),
        stats=st.as_dict(), samples=st.samples,
        assumptions=["'rejected' = the write call raised", "values are concrete representatives of each violation kind"],
        outside=["extra (undeclared) attributes in a write", "tfrec in the quick tier (needs the TF runtime; thorough tier)"],
        violations=viols, inconclusive=st.inconclusive, harness_errors=errors,
        twin=dict(obligations_reached=st.proves),
        rule="one evaluation = one explored path = (format, position, attribute, kind, metadata, E-class)",
        evaluations=st.paths, distinct_nontrivial=st.paths - st.aborted,
    )


def replay(case):
    if "declaration" in case:
        common.import_sedpack(need_tf=(case["ft"] == "tfrec"))
        r = declaration_case(case["ft"], case["declaration"])
        return r["outcome"] == "undecodable", str(r)
    try:
        scenario(ConcreteEngine(case["model"]), case["cfg"])
    except CexFound as c:
        return True, f"reproduced on the real writers/readers with {case['model']}: {c.msg}"
    return False, "not reproduced"


if __name__ == "__main__":
    import base64
    import json
    import pickle
    import sys
    _st = _cell(json.loads(sys.argv[1]))
    print("RESULT " + base64.b64encode(pickle.dumps(_st)).decode(), flush=True)
