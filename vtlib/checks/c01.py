"""C01 Round-trip fidelity: every value read equals the value written.

(A) FlatBuffers kernel, solver-proper: the real ShardWriterFlatBuffer.save_numpy_vector_as_bytearray and the real
    IterateShardFlatBuffer.decode_array run on the symnp shim (vtlib/symnp.py): EVERY ELEMENT IS AN UNCONSTRAINED
    BIT-VECTOR of the input dtype's width, so one z3 query per cell covers min/max, -0.0, +-inf, every NaN payload,
    subnormals and all other bit patterns at once.  Cells (finite fork): declared dtype x input dtype (same, every
    safely-castable narrower dtype) x byte order x memory layout (C / Fortran) x shape (rank 0..4, <= 12 elements).
    Proved: element i of the decoded array == exact conversion of input element i to the declared dtype, in the
    declared shape and logical order, dtype == declared dtype little-endian; unsupported combinations are REJECTED at
    write time.  The FlatBuffers builder is replaced by a capture stub for the vector payload only.
(B) concrete sweep on the real code end to end (real builder, codecs, files, readers): formats x compressions x dtypes x
    presentations (C/F order, strided negative-stride view, big-endian, narrower dtype, numpy scalar, Python scalar/list)
    x value classes (extremes, signed zero, inf, NaN payloads, subnormals, patterns) x shapes x readers (sync,
    concurrent, async; Rust and tfrec in the thorough tier), including the caller overwriting its array after the
    write.  [finite fork, concrete - grounds the shim and covers what is executed inside numpy / codecs]
"""
from __future__ import annotations

import asyncio
import itertools

import numpy as np
import z3

from .. import common, fillerlab, par, symnp
from ..common import Result, Violation
from ..symx import Inconclusive, Stats

PROP = "C01"
FUNCS = [
    "sedpack.io.shard.shard_writer_flatbuffer:ShardWriterFlatBuffer.save_numpy_vector_as_bytearray",
    "sedpack.io.shard.shard_writer_flatbuffer:ShardWriterFlatBuffer._write",
    "sedpack.io.shard.shard_writer_flatbuffer:ShardWriterFlatBuffer.close",
    "sedpack.io.flatbuffer.iterate:IterateShardFlatBuffer.decode_array",
    "sedpack.io.flatbuffer.iterate:IterateShardFlatBuffer._iterate_content",
    "sedpack.io.shard.shard_writer_np:ShardWriterNP._write",
    "sedpack.io.shard.shard_writer_np:ShardWriterNP.close",
    "sedpack.io.npz.iterate_npz:IterateShardNP.iterate_shard",
    "sedpack.io.shard.shard_writer_base:ShardWriterBase.write",
    "sedpack.io.tfrec.tfdata:to_tfrecord",
    "sedpack.io.tfrec.tfdata:get_from_tfrecord",
    "sedpack.io.compress:CompressedFile.compress",
]
NUMERIC = ["bool", "int8", "uint8", "int16", "uint16", "int32", "uint32", "int64", "uint64", "float16", "float32", "float64"]
SHAPES = [(), (1,), (3,), (2, 3), (3, 1, 2), (1, 2, 1, 3)]


class CapBuilder:
    """Captures the vector payload written by save_numpy_vector_as_bytearray (StartVector / Head / Bytes[...] = / EndVector)."""

    def __init__(self):
        self.head = 4096
        self.cap = None
        self.sv = None
        self.vectorNumElems = None
        outer = self

        class _Bytes:
            def __setitem__(self, sl, val):
                outer.cap = (sl.start, sl.stop, val)
        self.Bytes = _Bytes()

    def StartVector(self, elemSize, numElems, alignment):
        self.sv = (elemSize, numElems, alignment)

    def Head(self):
        return self.head

    def EndVector(self, *a):
        return 1


def kernel_cell(cell):
    """One (declared, input dtype, layout, shape) cell of the fb kernel.  Returns dict(outcome=..., ...)."""
    import sedpack.io.flatbuffer.iterate as R
    import sedpack.io.shard.shard_writer_flatbuffer as W
    from sedpack.io.metadata import Attribute
    decl, indt, layout, shape = cell["decl"], cell["indt"], cell["layout"], tuple(cell["shape"])
    src, dst = np.dtype(indt), np.dtype(decl)
    a, vals = symnp.fresh_array("v", src, shape, layout)
    attr = Attribute(name="a", dtype=decl, shape=shape)
    b = CapBuilder()
    old_w, old_r = W.np, R.np
    W.np = R.np = symnp.np_shim
    try:
        safe = bool(np.can_cast(src, dst, casting="safe"))
        try:
            W.ShardWriterFlatBuffer.save_numpy_vector_as_bytearray(builder=b, attribute=attr, value=a)
        except ValueError:
            return dict(outcome="rejected", expected_rejection=not safe)
        if not safe:
            return dict(outcome="accepted-unsafe-cast")
        if b.cap is None or b.sv is None:
            raise Inconclusive("the writer did not place a vector through StartVector/Bytes[...]")
        start, stop, payload = b.cap
        n = len(vals)
        if not isinstance(payload, symnp.SymBytes):
            raise Inconclusive("payload is not the shim's bytes object")
        if stop - start != len(payload) or len(payload) != n * dst.itemsize or b.vectorNumElems != len(payload) or b.head != start:
            return dict(outcome="bad-placement", detail=f"slice [{start}:{stop}] for {len(payload)} bytes, numElems={b.vectorNumElems}, head={b.head}")
        if b.sv[0] != 1 or b.sv[1] != len(payload) or b.sv[2] not in (1, 2, 4, 8) or b.sv[2] < min(dst.itemsize, 8):
            return dict(outcome="bad-placement", detail=f"StartVector{b.sv} for itemsize {dst.itemsize}")
        # what every fb reader gets: the byte vector as a uint8 array
        np_bytes = symnp.SymArr(np.dtype("uint8"), (len(payload),), [[x] for x in payload.b])
        out = R.IterateShardFlatBuffer.decode_array(np_bytes=np_bytes, attribute=attr)
    finally:
        W.np, R.np = old_w, old_r
    if tuple(out.shape) != shape:
        return dict(outcome="wrong-shape", detail=f"{out.shape} != {shape}")
    odt = out.dtype.dt
    if odt.newbyteorder("=") != dst.newbyteorder("=") or not symnp.is_le(odt):
        return dict(outcome="wrong-dtype", detail=f"decoded dtype {odt.str}, declared {dst.str} (little-endian expected)")
    s = z3.Solver()
    s.set("timeout", 120_000)
    exp = [symnp.convert(v, src, dst)[0] for v in vals]
    s.add(z3.Or([out.value(i) != exp[i] for i in range(n)]))
    t = __import__("time").time()
    r = s.check()
    dt = __import__("time").time() - t
    if r == z3.unsat:
        return dict(outcome="holds", solver_s=dt)
    if r == z3.sat:
        m = s.model()
        concrete = [m.eval(v, model_completion=True).as_long() for v in vals]
        return dict(outcome="cex", values=concrete, solver_s=dt)
    return dict(outcome="unknown", solver_s=dt)


def kernel_cells(tier):
    cells = []
    for decl in NUMERIC:
        dst = np.dtype(decl)
        inputs = [d for d in NUMERIC if np.can_cast(np.dtype(d), dst, casting="safe")]
        unsafe = [d for d in NUMERIC if not np.can_cast(np.dtype(d), dst, casting="safe")][:2]
        for indt in inputs + unsafe:
            for bo in ("<", ">"):
                if np.dtype(indt).itemsize == 1 and bo == ">":
                    continue
                for layout in ("C", "F"):
                    shapes = SHAPES if (tier == "thorough" or indt == decl) else [(3,), (2, 3)]
                    if indt in unsafe:
                        shapes = [(2,)]
                    for shape in shapes:
                        if layout == "F" and len(shape) < 2:
                            continue
                        cells.append(dict(decl=decl, indt=np.dtype(indt).newbyteorder(bo).str, layout=layout, shape=list(shape)))
    return cells


def _kernel_batch(batch):
    common.import_sedpack()
    st = Stats()
    for cell in batch:
        st.paths += 1
        st.proves += 1
        try:
            r = kernel_cell(cell)
        except Inconclusive as inc:
            st.inconclusive.append(f"{cell}: {inc}")
            continue
        st.queries += 1
        st.qtime += r.get("solver_s", 0.0)
        o = r["outcome"]
        if o == "holds" or (o == "rejected" and r.get("expected_rejection")):
            st.proved += 1
            if len(st.samples) < 2:
                st.samples.append(dict(cell=cell, outcome=o))
        elif o == "rejected":
            st.cex.append(dict(msg=f"fb: writing a {cell['indt']} array (safely castable) to an attribute declared {cell['decl']} is rejected",
                               model={}, info=dict(kind="fb-rejects-safe-input", cell=cell, values=None)))
        elif o == "unknown":
            st.inconclusive.append(f"{cell}: solver unknown")
        else:
            st.cex.append(dict(msg=f"fb kernel: declared {cell['decl']}, input {cell['indt']} {cell['layout']}-order shape {tuple(cell['shape'])}: {o} "
                                   f"{r.get('detail', '')} {('for element bit patterns ' + str([hex(v) for v in r['values']])) if 'values' in r else ''}",
                               model={}, info=dict(kind=f"fb-kernel-{o}", cell=cell, values=r.get("values"))))
    return st


# ---- (B) concrete sweep on the real code -------------------------------------------------------
def value_classes(dt: np.dtype, n: int):
    """Interesting full-range values for the dtype, as flat arrays of length n."""
    out = []
    if dt.kind == "b":
        out.append(np.array([(i % 2) == 0 for i in range(n)], dt))
    elif dt.kind in "iu":
        info = np.iinfo(dt)
        base = [info.min, info.max, 0, 1, info.max - 1, info.min + 1, info.max // 3, 0x55 % (info.max + 1)]
        out.append(np.array([base[i % len(base)] for i in range(n)], dt))
    else:
        info = np.finfo(dt)
        u = {2: np.uint16, 4: np.uint32, 8: np.uint64}[dt.itemsize]
        base = [0.0, -0.0, np.inf, -np.inf, info.max, info.min, info.tiny, info.smallest_subnormal, -info.smallest_subnormal, 1.0 + info.eps]
        out.append(np.array([base[i % len(base)] for i in range(n)], dt))
        # NaN payloads and arbitrary bit patterns through an integer view
        bits = np.array([((0x7F << (dt.itemsize * 8 - 8)) | (0xFF << (dt.itemsize * 8 - 16)) | (i * 7 + 1)) & ((1 << dt.itemsize * 8) - 1)
                         for i in range(n)], u)
        out.append(bits.view(dt))
    rng = np.random.default_rng(12345 + dt.itemsize)
    out.append(np.frombuffer(rng.bytes(n * dt.itemsize), dtype=dt).copy() if dt.kind != "b" else np.array(rng.integers(0, 2, n), dt))
    return out


def presentations(x: np.ndarray, decl: np.dtype):
    """(name, object handed to the writer, expected array in declared dtype)"""
    exp = x.astype(decl)
    yield "C", np.ascontiguousarray(x), exp
    if x.ndim >= 2:
        yield "F", np.asfortranarray(x), exp
    if x.ndim >= 1 and x.shape[0] > 1:
        big = np.zeros((x.shape[0] * 2,) + x.shape[1:], x.dtype)
        big[::2] = x[::-1]
        yield "strided-negative", big[::2][::-1], exp
    if x.dtype.itemsize > 1:
        yield "big-endian", x.astype(x.dtype.newbyteorder(">")), exp
    if x.ndim == 0:
        yield "numpy-scalar", x[()], exp
    yield "list", x.tolist(), None  # Python containers: accepted only if the format can type them; checked for equality when accepted


def same_bits(got, exp, decl, strict=True):
    """strict (fb): the declared dtype and identical bits.  Otherwise (npz keeps whatever numpy made of the written values,
    tfrec widens integers to int64): the VALUES must be exactly those written - identical bits whenever the returned dtype is
    the declared one, exact numeric equality (and NaN for NaN) when the library re-typed the column."""
    got = np.asarray(got)
    if got.shape != exp.shape:
        return False
    le = decl.newbyteorder("<")
    if got.dtype.newbyteorder("=") == decl.newbyteorder("="):
        return np.ascontiguousarray(got).astype(le).tobytes() == np.ascontiguousarray(exp).astype(le).tobytes()
    if strict:
        return False
    g, x = got.flatten().tolist(), exp.flatten().tolist()
    for a, b in zip(g, x):
        if isinstance(b, float) and b != b:
            if not (isinstance(a, float) and a != a):
                return False
        elif isinstance(a, bool) or isinstance(b, bool):
            if bool(a) != bool(b) or (not isinstance(a, bool) and a not in (0, 1)):
                return False
        elif a != b or (isinstance(a, float) and isinstance(b, int) and float(b) != a) or \
                (isinstance(a, float) and isinstance(b, float) and np.signbit(a) != np.signbit(b)):
            return False
    return True


def sweep_case(cell, ext=None):
    """One dataset: format, compression, declared dtype; many examples.  Returns list of problem strings."""
    import sedpack.io.dataset_iteration as DI
    from sedpack.io import Attribute, Dataset
    from .. import iterlab
    ft, comp, decl_name = cell["ft"], cell["compression"], cell["decl"]
    decl = np.dtype(decl_name)
    shapes = {"s": (), "v": (3,), "m": (2, 3), "t": (1, 2, 1, 2)}
    problems = []
    with common.scratch_dir("vt01_") as tmp:
        attrs = [Attribute(name=k, dtype=decl_name, shape=sh) for k, sh in shapes.items()]
        d = fillerlab.make_dataset(tmp / "ds", ft=ft, eps=5, attrs=attrs, compression=comp)
        written = []
        inputs_by_name = {}
        narrower = [decl] + [np.dtype(t) for t in NUMERIC if np.dtype(t) != decl and np.can_cast(np.dtype(t), decl, "safe")][:3]
        with d.filler() as f:
            for src in narrower:
                per_shape = {k: value_classes(src, int(np.prod(sh)) if sh else 1) for k, sh in shapes.items()}
                for vc in range(len(per_shape["s"])):
                    arrays = {k: per_shape[k][vc].reshape(sh) for k, sh in shapes.items()}
                    pres = {k: list(presentations(arrays[k], decl)) for k in shapes}
                    for pi in range(max(len(v) for v in pres.values())):
                        values, expect, label = {}, {}, []
                        for k in shapes:
                            name, obj, exp = pres[k][pi % len(pres[k])]
                            values[k] = obj
                            expect[k] = exp if exp is not None else arrays[k].astype(decl)
                            label.append(name)
                        try:
                            f.write_example(values=values, split="train")
                        except Exception as exc:  # noqa: BLE001 - an input the format refuses at write time is fine for C01
                            continue
                        written.append((src.str, label, expect))
                        # the caller re-uses / overwrites its buffers after the write
                        for k, obj in values.items():
                            if isinstance(obj, np.ndarray) and obj.ndim > 0 and obj.flags.writeable:
                                obj[...] = 0
        readers = {"sync": lambda: list(d.as_numpy_iterator(split="train", repeat=False, shuffle=0)),
                   "concurrent": lambda: list(d.as_numpy_iterator_concurrent(split="train", repeat=False, shuffle=0, file_parallelism=2))}
        if ft in ("fb", "npz"):
            async def arun():
                return [x async for x in d.as_numpy_iterator_async(split="train", repeat=False, shuffle=0, file_parallelism=2)]
            readers["async"] = lambda: asyncio.run(arun())
        if ext is not None and ft == "fb" and comp in ext.RustIter.supported_compressions():
            def rust():
                with iterlab.patched(DI, _sedpack_rs=ext):
                    return list(d.as_numpy_iterator_rust(split="train", repeat=False, shuffle=0, file_parallelism=2))
            readers["rust"] = rust
        for rname, read in readers.items():
            try:
                got = read()
            except Exception as exc:  # noqa: BLE001
                problems.append(f"{ft}/{comp or 'none'}/{decl_name}: reader {rname} raised {type(exc).__name__}: {str(exc)[:80]}")
                continue
            if len(got) != len(written):
                problems.append(f"{ft}/{comp or 'none'}/{decl_name}: reader {rname} returned {len(got)} of {len(written)} examples")
                continue
            for ex, (src, label, expect) in zip(got, written):
                for k in shapes:
                    if not same_bits(ex[k], expect[k], decl, strict=(ft == "fb")):
                        gd = np.asarray(ex[k]).dtype
                        cause = "bits-differ" if gd.newbyteorder("=") == decl.newbyteorder("=") else f"retyped-to-{gd.name}"
                        problems.append(f"[{cause}] {ft}/{comp or 'none'}: attribute declared {decl_name} shape {shapes[k]}, written from {src} as "
                                        f"{label[list(shapes).index(k)]}: reader {rname} returned {np.asarray(ex[k]).tolist()!r:.60} "
                                        f"instead of {expect[k].tolist()!r:.60}")
                        break
                    if ft == "fb" and np.asarray(ex[k]).dtype != decl:
                        problems.append(f"fb/{comp or 'none'}: reader {rname} returned dtype {np.asarray(ex[k]).dtype} for an attribute declared {decl_name}")
                        break
                if len(problems) > 3:
                    break
        if not written:
            problems.append(f"{ft}/{comp or 'none'}/{decl_name}: every write was refused (the format supports this dtype)")
    return problems


def bytes_case(ft, comp):
    """bytes / str attributes (formats that support them): byte-identical incl. empty and NUL-containing strings."""
    from sedpack.io import Attribute
    vals_b = [b"", b"a", b"ab\x00", b"\x00\x00", b"abc\x00\x00d", bytes(range(256))]
    vals_s = ["", "a", "héllo ☃", "nul\x00inside", "trailing nul\x00"]
    problems = []
    for dtype, vals in (("bytes", vals_b), ("str", vals_s)):
        with common.scratch_dir("vt01b_") as tmp:
            try:
                d = fillerlab.make_dataset(tmp / "ds", ft=ft, eps=4, attrs=[Attribute(name="x", dtype=dtype, shape=())], compression=comp)
                acc = []
                with d.filler() as f:
                    for v in vals:
                        try:
                            f.write_example(values={"x": v}, split="train")
                            acc.append(v)
                        except Exception:  # noqa: BLE001
                            pass
            except Exception as exc:  # noqa: BLE001
                problems.append(("session", dtype, f"{type(exc).__name__}: {str(exc)[:60]}"))
                continue
            if not acc:
                continue  # the format refuses this dtype at write time
            try:
                got = [e["x"] for e in d.as_numpy_iterator(split="train", repeat=False, shuffle=0)]
            except Exception as exc:  # noqa: BLE001
                problems.append(("read", dtype, f"{type(exc).__name__}: {str(exc)[:60]}"))
                continue
            for g, v in zip(got, acc):
                gb = bytes(g) if isinstance(g, (bytes, np.bytes_)) else (str(g).encode() if not isinstance(g, bytes) else g)
                if isinstance(g, np.ndarray):
                    gb = g.tobytes() if g.dtype.kind == "S" else str(g[()]).encode()
                vb = v if isinstance(v, bytes) else v.encode("utf-8")
                if gb != vb:
                    cls = "trailing-NUL" if vb.rstrip(b"\x00") == gb else "other"
                    problems.append(("value", dtype, cls, f"wrote {v!r:.30}, read {g!r:.30}"))
    return problems


def _sweep_batch(batch):
    common.import_sedpack(need_tf=any(c["ft"] == "tfrec" for c in batch))
    from .. import rustlab
    st = Stats()
    ext = None
    for cell in batch:
        if cell.get("rust") and ext is None:
            ext = rustlab.build_extension()[0]
        st.paths += 1
        st.proves += 1
        if cell.get("bytes"):
            pr = bytes_case(cell["ft"], cell["compression"])
            for p in pr:
                kind = f"{cell['ft']}:{p[1]}:{p[2] if p[0] == 'value' else p[0]}"
                st.cex.append(dict(msg=f"{cell['ft']}/{cell['compression'] or 'none'} {p[1]} attribute: {p[-1]}", model={},
                                   info=dict(kind=kind, sweep=cell)))
            if not pr:
                st.proved += 1
            continue
        pr = sweep_case(cell, ext if cell.get("rust") else None)
        if pr:
            cause = pr[0][1:].split("]")[0] if pr[0].startswith("[") else "reader"
            st.cex.append(dict(msg=pr[0], model={}, info=dict(kind=f"roundtrip:{cell['ft']}:{cell['decl']}:{cause}", sweep=cell)))
        else:
            st.proved += 1
            st.concrete_proves += 1
    return st


def sweep_cells(tier):
    cells = []
    fb_comp = ["", "GZIP"] if tier == "quick" else ["", "BZ2", "GZIP", "LZMA", "LZ4", "ZLIB", "ZSTD"]
    for comp in fb_comp:
        for decl in NUMERIC:
            cells.append(dict(ft="fb", compression=comp, decl=decl, rust=(tier == "thorough")))
    for comp in (["ZIP"] if tier == "quick" else ["", "ZIP"]):
        for decl in NUMERIC:
            cells.append(dict(ft="npz", compression=comp, decl=decl))
        cells.append(dict(ft="npz", compression=comp, bytes=True))
    cells.append(dict(ft="fb", compression="", bytes=True))
    if tier == "quick":
        # a small TFRecord part (needs the real TensorFlow runtime, ~15 s import; run as one batch)
        for decl in ("int32", "float32", "float64"):
            cells.append(dict(ft="tfrec", compression="", decl=decl))
        cells.append(dict(ft="tfrec", compression="", bytes=True))
    if tier == "thorough":
        for comp in ("", "GZIP", "ZLIB"):
            for decl in ("int8", "uint8", "int32", "int64", "float16", "float32", "float64"):
                cells.append(dict(ft="tfrec", compression=comp, decl=decl))
            cells.append(dict(ft="tfrec", compression=comp, bytes=True))
    return cells


def _chunks(xs, n):
    k = max(1, (len(xs) + n - 1) // n)
    return [xs[i:i + k] for i in range(0, len(xs), k)]


def _tf_batch_subprocess(batch):
    """TFRecord cells need the real TensorFlow: a fresh interpreter (the pool workers were forked with the TF stub loaded)."""
    import json
    import pickle
    import subprocess
    import sys
    import base64
    r = subprocess.run([sys.executable, "-m", "vtlib.checks.c01", json.dumps(batch)], capture_output=True, text=True, timeout=3000,
                       cwd=str(common.VERIF))
    for line in r.stdout.split("\n"):
        if line.startswith("RESULT "):
            return pickle.loads(base64.b64decode(line[7:]))
    st = Stats()
    st.inconclusive.append("TFRecord sweep sub-process failed: " + r.stderr[-300:])
    return st


def _dispatch(job):
    if job[0] == "kernel":
        return _kernel_batch(job[1])
    if job[1] and job[1][0]["ft"] == "tfrec":
        return _tf_batch_subprocess(job[1])
    return _sweep_batch(job[1])


def run(tier, seed):
    common.import_sedpack()
    kc = kernel_cells(tier)
    sc = sweep_cells(tier)
    tf_cells = [c for c in sc if c["ft"] == "tfrec"]
    sc = [c for c in sc if c["ft"] != "tfrec"]
    jobs = [("sweep", b) for b in _chunks(tf_cells, 1 if tier == "quick" else 6)] + \
           [("kernel", b) for b in _chunks(kc, 12)] + [("sweep", b) for b in _chunks(sc, 14 if tier == "quick" else 40)]
    st, per_cell, errors = par.run_cells(_dispatch, jobs)
    viols, seen = [], set()
    for c in st.cex:
        info = c.get("info") or {}
        sig = f"{PROP}:{info.get('kind', c['msg'][:40])}"
        if sig in seen:
            continue
        seen.add(sig)
        viols.append(Violation(sig, c["msg"], dict(cell=info.get("cell"), values=info.get("values"), sweep=info.get("sweep"))))
    return Result(
        property_id=PROP, engine="symx-style shim execution (symnp) + z3 bit-vectors; concrete sweep",
        explanation="(A) the real FlatBuffers element kernel (writer: copy/flatten/can_cast/array/byteswap/tobytes/vector placement; "
                    "reader: newbyteorder/frombuffer/reshape) is executed on a bit-vector model of numpy: per (declared dtype, input "
                    "dtype, byte order, layout, shape) cell ONE z3 query proves decoded == exact conversion of the written element for "
                    "all bit patterns simultaneously. (B) a concrete end-to-end sweep on the real code (real numpy, builder, codecs, "
                    "files, every reader) over formats x compressions x dtypes x presentations x value classes, including callers "
                    "that overwrite their arrays after the write; it grounds the shim and covers npz / codecs, which are library "
                    "internals and not symbolically executable.",
        functions=FUNCS,
        bounds=dict(kernel_cells=len(kc), sweep_datasets=len(sc), shapes=[list(s) for s in SHAPES], max_elements=12,
                    dtypes=NUMERIC, note="kernel: all bit patterns per cell; sweep: listed value classes"),
        stats=st.as_dict(), samples=st.samples,
        assumptions=["symnp models numpy's element semantics (self-grounded by sweep B on the same code paths)",
                     "every codec is an exact inverse pair; FlatBuffers/zip/TFRecord containers deliver the byte vector they were given (swept concretely)",
                     "narrower-dtype inputs: numpy's safe cast is exact (conversion itself is numpy's)"],
        outside=["tf.data decode internals", "Rust FlatBuffers decoder (thorough sweep + C15)", "attribute lists with more than 4 attributes"],
        violations=viols, inconclusive=st.inconclusive, harness_errors=errors,
        twin=dict(obligations_reached=st.proves),
        rule="kernel: one evaluation = one cell = one z3 query over all bit patterns; sweep: one evaluation = one dataset with ~40 examples x 3-4 readers",
        evaluations=st.paths, distinct_nontrivial=st.paths,
    )


def replay(case):
    common.import_sedpack(need_tf=bool(case.get("sweep") and case["sweep"].get("ft") == "tfrec"))
    if case.get("sweep"):
        cell = case["sweep"]
        if cell.get("bytes"):
            pr = bytes_case(cell["ft"], cell["compression"])
            return bool(pr), str(pr[:3])
        ext = None
        if cell.get("rust"):
            from .. import rustlab
            ext = rustlab.build_extension()[0]
        pr = sweep_case(cell, ext)
        return bool(pr), str(pr[:2])
    # a kernel counter-example: real numpy, real builder, real reader with the concrete bit patterns
    from sedpack.io import Attribute
    cell, vals = case["cell"], case.get("values")
    src = np.dtype(cell["indt"])
    shape = tuple(cell["shape"])
    n = int(np.prod(shape)) if shape else 1
    if vals is None:
        arrs = value_classes(src.newbyteorder("="), n)
    else:
        u = {1: np.uint8, 2: np.uint16, 4: np.uint32, 8: np.uint64}[src.itemsize]
        arrs = [np.array(vals, u).view(src.newbyteorder("="))]
    for base in arrs:
        x = base.reshape(shape).astype(src)
        if cell["layout"] == "F":
            x = np.asfortranarray(x)
        with common.scratch_dir("vt01r_") as tmp:
            d = fillerlab.make_dataset(tmp / "ds", ft="fb", eps=2, attrs=[Attribute(name="a", dtype=cell["decl"], shape=shape)])
            try:
                with d.filler() as f:
                    f.write_example(values={"a": x}, split="train")
            except Exception as exc:  # noqa: BLE001
                if np.can_cast(src, np.dtype(cell["decl"]), "safe"):
                    return True, f"real writer rejects the safely castable input: {exc}"
                continue
            got = list(d.as_numpy_iterator(split="train", repeat=False, shuffle=0))[0]["a"]
            exp = np.asarray(x).astype(np.dtype(cell["decl"]))
            if not same_bits(got, exp, np.dtype(cell["decl"])) or got.dtype != np.dtype(cell["decl"]):
                return True, f"real fb round trip: wrote {np.asarray(x).tolist()} ({src.str}, {cell['layout']}), read {got.tolist()} ({got.dtype})"
    return False, "the real round trip returned the written values"


if __name__ == "__main__":
    import base64
    import json
    import pickle
    import sys
    _st = _sweep_batch(json.loads(sys.argv[1]))
    print("RESULT " + base64.b64encode(pickle.dumps(_st)).decode(), flush=True)
