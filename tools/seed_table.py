#!/usr/bin/env python3
"""Regenerate the seeded-change table of DESIGN.md (between the markers) from seeded/*/meta.json + detect.json."""
import json, re
from pathlib import Path
V = Path("/verif")
rows = []
for d in sorted((V / "seeded").iterdir()):
    if not d.is_dir():
        continue
    meta = json.loads((d / "meta.json").read_text())
    det = json.loads((d / "detect.json").read_text()) if (d / "detect.json").exists() else {}
    notes = meta.get("needs_to_manifest", "")
    title = next((l.strip("# ").strip() for l in notes.split("\n") if l.strip()), "")[:150]
    caught = ", ".join(f"{c} ({'quick' if v.get('detected') else 'exit ' + str(v.get('exit'))}, {v.get('wall_s')} s)" for c, v in det.items()) or "not swept yet"
    first = next((v["first"][1].replace("what:", "").strip()[:160] for v in det.values() if v.get("detected") and len(v.get("first", [])) > 1), "")
    rows.append(f"| `{d.name}` | {title} | {caught} | {first} |")
table = "| seeded change | what it does (from its notes) | caught by | first report |\n|---|---|---|---|\n" + "\n".join(rows)
p = V / "DESIGN.md"
s = p.read_text()
a, b = "<!-- SEED-TABLE-BEGIN -->", "<!-- SEED-TABLE-END -->"
if a not in s:
    s += f"\n### 7.6 Independently seeded changes and the checks that catch them\n\n{a}\n{b}\n"
s = s[:s.index(a) + len(a)] + "\n" + table + "\n" + s[s.index(b):]
p.write_text(s)
print(len(rows), "rows")
