#!/usr/bin/env python3
"""Generate /verif/MANIFEST.json from the table below (keeps the file valid at all times)."""
import json
import sys
from pathlib import Path

VERIF = Path(__file__).resolve().parent.parent
BASELINE = ("cd /repo && /venv/bin/python -m pytest -ra -q -p no:cacheprovider --timeout=900 "
            "--continue-on-collection-errors")

# id -> (engine, technique, level text, level note, design ref)
CHECKS = {
    "C10": ("symx",
            "bounded symbolic execution of the real filler + fb writer with z3 (E unbounded symbolic)",
            "Every feasible path of the real writing code within the stated write-count bounds is explored; on each path z3 "
            "proves the shard-size obligations for ALL examples_per_shard values on that path (unbounded integer). "
            "Counter-examples are replayed concretely on the unmodified public API before being reported.",
            "z3; scratch file system; uuid4 distinctness; bounds: <=10 writes/session quick, <=16 thorough; fb writer only",
            "DESIGN.md 3/C10"),
    "C11": ("symx",
            "bounded symbolic execution of the real filler with z3 (E unbounded; metadata/aliasing sequences solver-forked)",
            "Every metadata sequence within the bounds (absent/A/B/C, fresh or in-place-mutated object, nested mutation) and every "
            "examples_per_shard value is covered; the label of the shard holding each labelled example is proved equal to the "
            "harness's own copy of the value at write time; shard_filter selection is run through the real reader.",
            "z3; bounds: <=4 writes quick, <=6 thorough; fb writer; retroactive labelling of unlabelled examples is allowed",
            "DESIGN.md 3/C11"),
    "C12": ("symx",
            "bounded symbolic execution of shard_paths_dataset and every iteration interface with z3 (symbolic predicate bits, k, limit)",
            "For every interface (numpy, concurrent, async, rust, tfdataset in both branches, tfrec decoders stubbed) the examples "
            "reaching the consumer are proved equal to the reference selection for all predicate outcomes and all k / per-metadata "
            "limits within the bounds; empty selections must raise.",
            "z3; <=4 shards quick / <=5 thorough; tf.data, native iterator and tfrec decoder are recording/contract stubs "
            "(replays use the real TF and native iterator)",
            "DESIGN.md 3/C12"),
    "C16": ("symx",
            "symbolic execution of the real hash_checksums with z3 (symbolic file size, arbitrary short reads)",
            "For a file of symbolic size and every short-read schedule within the read bound, z3 proves that each configured "
            "hash object is fed exactly the bytes [0,S) once, in order, and that digests are returned in the configured order; "
            "algorithm identity and stored-tuple provenance are concrete anchors.",
            "z3; <=5 read calls quick / <=7 thorough; hashlib/xxhash trusted; OS read contract; plus a second call on another file at "
            "a solver-chosen point of the first (shared module-level state) and 'hash, replace the file, hash again' with arbitrary stat results",
            "DESIGN.md 3/C16"),
    "C17": ("symx",
            "symbolic execution with z3 of the real path validators and join sites on symbolic paths (SymPath shim)",
            "Every path-valued metadata field and the writer sub-directory are symbolic paths (absolute flag + bounded part "
            "sequence); at every file access of load/check/iterate/write the solver proves the location cannot leave the root "
            "for any path accepted by the validators that ran.",
            "z3; SymPath abstraction self-tested against pathlib; <=4 parts per validated path, <=3 at writer join sites (<=2 in the "
            "4-path reader tree) quick; validators also under cwd=/ and python -O; no "
            "symlinks; pydantic field validators discovered through __pydantic_decorators__",
            "DESIGN.md 3/C17"),
    "C20": ("symx",
            "symbolic execution with z3 of the real version gate on unbounded symbolic version triples; finite forks for relocation",
            "Refusal <=> strictly newer is proved for all (major, minor, patch) in N^3 on every path of the real comparison code; "
            "relocation and description round trip are finite forks over stated cases on the real code (concrete).",
            "z3; semver parse; pre-release tags outside; pydantic-core JSON not symbolically executed",
            "DESIGN.md 3/C20"),
    "C04": ("symx",
            "inductive step on the real merge/write_config/filler code with unbounded symbolic shard counts (z3, memdocs)",
            "For every (pre-state shape, session kind) of a bounded shape family the invariant Inv and exactness of all totals are "
            "proved by z3 for ALL example counts (one symbolic path each); histories of any length follow by induction over "
            "sessions. 'Count recorded == decodable examples' and file placement are grounded by the C08 history exploration "
            "on real files with an independent audit.",
            "z3; memdocs shim (dump/load identity, hash tokens injective); shape family depth<=4, <=2 children; one live handle",
            "DESIGN.md 3/C04"),
    "C08": ("symx",
            "bounded symbolic execution of complete writing histories through the public API on real files (E symbolic, history solver-forked)",
            "Every history of <=2 (quick) / <=3 (thorough) sessions over {root, sub-dir, reused/nested sub-dir, multi-writer x1/x2} x "
            "splits x sizes x reopen-or-keep is explored; after each session the iterated multiset, check(), an independent "
            "metadata audit and memory==disk are asserted, for all examples_per_shard values on the path.",
            "z3; real fb writer/reader; single_process=True for the multi-writer call; one live handle",
            "DESIGN.md 3/C08"),
    "C05": ("symx (finite fork)",
            "solver-driven exhaustive fork over (reachable file x modification kind x handle) on the real check() with real digests",
            "Every reachable shard, shard list and the description of committed datasets from three history shapes is modified "
            "in every listed way and the real check() must raise on the same handle and on a fresh one; the byte-level quantifier "
            "is discharged by the collision-resistance assumption and C16, as stated in the evidence.",
            "collision resistance; C16; finite fork (no symbolic bytes); expected description checksums supplied",
            "DESIGN.md 3/C05"),
    "C02": ("symx",
            "bounded symbolic execution of the real iteration code with z3 (symbolic random states, shuffle, parallelism, completion order)",
            "On real shard-list trees with token decoders every index sequence of the shuffle buffers / round robin, every shuffle "
            "size and parallelism and every in-window completion order of the lazy pool is covered; per path the yielded multiset "
            "equals the split and the transformation is applied exactly once.",
            "z3; contracts: LazyPool (C13), ThreadPoolExecutor.map, RustIter (C15); <= 9 examples, <= 5 shards; tf.data outside",
            "DESIGN.md 3/C02"),
    "C03": ("symx",
            "bounded symbolic execution of the real unshuffled iteration paths with z3 (symbolic parallelism of both passes, reopen bit)",
            "For datasets written by the real filler (interleaved splits, nested sessions, multi-writer calls with writers feeding "
            "several splits) every interface yields the in-session write order, the same sequence on a second pass / reopened "
            "handle / other parallelism, and the sequential reader's sequence; tfrec as_tfdataset pipeline is checked at the "
            "argument level.",
            "z3; executor/RustIter contracts; TF ordering contract (recorded pipeline)",
            "DESIGN.md 3/C03"),
    "C14": ("symx",
            "bounded symbolic execution of the real iteration generators with pull-counting monitors (symbolic buffer, parallelism, take-count)",
            "At every yield the examples/shards/paths read ahead of the consumer are proved bounded by a formula over buffer size and "
            "parallelism only, for finite and infinite (repeating) streams; taking k elements from the infinite stream terminates.",
            "z3; LazyPool bound 2T+3 is the C13 query; native bound is C15; tf.data prefetch outside",
            "DESIGN.md 3/C14"),
    "C19": ("symx",
            "bounded symbolic execution of the real repeating iteration paths with z3 (symbolic prefix length, parallelism, random states)",
            "Prefixes of up to 3 epochs + 1 of the endless stream: never ends, only elements of the split, unshuffled = one-pass "
            "sequence repeated, Rust interface = one permutation and one released native iterator per epoch.",
            "z3; contracts as C02; tf.data repeat() recorded; plus two live streams of one handle in every alternation pattern and a "
            "second iteration of the returned tf dataset object",
            "DESIGN.md 3/C19"),
    "C13": ("pocomp",
            "thread-modular symbolic summaries of the real lazy_pool.py (symx) + SMT partial-order composition over all interleavings (z3)",
            "For each configuration (T, n<=nmax, plain / failing function / early exit) z3 decides over ALL interleavings at queue-"
            "operation granularity: no deadlock or leaked worker, exactly-once, failure surfaces, read-ahead <= 2T+3, pool reusable; "
            "an unwinding query and a reachability twin guard the bounds; models are replayed as gated schedules on the real pool "
            "with real threads.",
            "z3; queue.Queue FIFO/blocking semantics (capacity read from the code; bounded put blocks); T<=2 quick (T<=3 thorough), "
            "n<=5..7; a timed get may time out only on an empty queue; one input value may be None; failure must not be deferred",
            "DESIGN.md 2.3, 3/C13"),
    "C07": ("symx+pocomp",
            "bounded symbolic execution of the real iteration code with a failing decoder (z3) + pocomp queries for the lazy pool + finite fork on real decoders / rebuilt native extension",
            "For every position of the unreadable shard, every parallelism / shuffle / random index sequence within the bounds the "
            "consumer observes an exception on every Python interface; the lazy pool part holds for all interleavings (pocomp); "
            "real decoders, real threads and the rebuilt Rust extension are swept over damage kind x position under a watchdog.",
            "z3; contracts of C13; executor re-raise contract; Rust reader covered by concrete sweep (protocol: C15); tf.data outside",
            "DESIGN.md 3/C07"),
    "C18": ("symx",
            "bounded symbolic execution of write sequences through the real filler and shard writers/readers (E symbolic; position, attribute, violation kind, metadata solver-forked)",
            "For fb and npz (tfrec in the thorough tier) every (position, offending attribute incl. scalar and missing, violation "
            "kind, surrounding metadata arguments) and every examples_per_shard value: a rejected write leaves no trace (session "
            "continues, other examples unchanged, counts exclude it), an accepted write keeps the dataset decodable.",
            "z3; real numpy/flatbuffers; concrete representative values per violation kind; <=3 writes quick / 4 thorough",
            "DESIGN.md 3/C18"),
    "C06": ("symx+fsx",
            "solver-driven exhaustive fork over crash points (every file-system effect of the session) and surviving prefixes, real writer killed by an FS interposer, real reader inspects",
            "For first/continued/sub-directory/multi-writer sessions in fb and npz every numbered effect (open, each write, close, "
            "replace, mkdir) is a crash point; after the crash every published metadata file is a complete document, the dataset "
            "opens and iterates, reachable shards match their checksums, committed examples are all returned and nothing unwritten "
            "is. The same states are the instants a concurrent reader can observe.",
            "process crash only (no fsync claim); os.replace atomic; 3 surviving-prefix variants; tfrec file I/O not interposable",
            "DESIGN.md 3/C06"),
    "C09": ("symx+fsx",
            "commutativity argument with premises checked by bounded symbolic execution (z3-forked writer count, loads, completion permutation) under an FS interposer recording per-writer footprints",
            "On every path the real write_multiprocessing runs with a Pool contract stub evaluating workers in the solver-chosen "
            "order across a pickle boundary; write-sets are private and pairwise disjoint, no writer reads what another writes, "
            "shared directory creation tolerates a lost race, results/merge are in argument order, outcome equals the sequential "
            "run (multisets, per-writer order, audit, check()); one real multiprocessing.Pool run anchors the stub.",
            "Pool.imap contract; uuid4 distinctness; disjoint footprints imply schedule independence; <=3 writers; cpu_count symbolic",
            "DESIGN.md 3/C09"),
    "C01": ("symnp+z3",
            "the real FlatBuffers element kernel executed on a bit-vector model of numpy: one z3 query per (declared dtype, input dtype, byte order, layout, shape) cell over ALL bit patterns; concrete end-to-end sweep for npz/codecs/readers",
            "fb: for every cell decoded element == exact conversion of the written element, declared shape/order, declared little-"
            "endian dtype, unsupported inputs rejected at write time - for all 2^(8*itemsize*n) bit patterns at once. npz/tfrec and "
            "everything executed inside numpy/codecs is covered by a stated concrete sweep (dtypes x presentations x value classes "
            "x readers, incl. callers overwriting their buffers).",
            "symnp shim (grounded by the sweep); codecs/containers are exact; <=12 elements per array; tfrec and Rust reader in thorough",
            "DESIGN.md 3/C01"),
    "C15": ("mirx",
            "MIR interpreter over rustc's MIR of the current rust/src (Kahn-network audit + one fair schedule per (items, threads, drop position)); z3 for the usize index steps and for the bit-vector equivalence of RustGenerator.to_dict with the Python decoder",
            "The native reader's protocol is shown (on the MIR) to use only blocking SPSC channel operations, spawn and join, hence "
            "to be schedule independent; its execution yields f(item k) as k-th result, exactly n results, no panic, no deadlock/"
            "leak on (early) drop, <= T tasks in flight, for all n<=5 (8), T<=4 (6), every drop position.  z3 proves the index "
            "arithmetic of ParallelMap::next and ShardProgress::next for all 64-bit values and the equality of the Python-side "
            "re-typing with the Python reader for all bit patterns; a rebuilt extension is compared with the Python reader.",
            "mpsc/thread library semantics; Kahn determinism; MIR closure-capture printing quirk; decoders' byte equality only by "
            "differential anchor; RustIter registry: all life-cycle interleavings of <=3 iterators (rand::random fresh w.r.t. live keys), "
            "2 Python threads x every interleaving of registry-mutex/GIL operations",
            "DESIGN.md 2.4, 3/C15, 7.2"),
}

PENDING_REASON = "check not built yet in this round (work in progress; see DESIGN.md section 3 for the planned encoding)"
NOT_APPLICABLE = {}  # filled below when a property is not claimed


def main():
    props = [json.loads(l)["id"] for l in (VERIF / "properties.jsonl").read_text().splitlines() if l.strip()]
    checks = []
    for pid in props:
        if pid not in CHECKS:
            continue
        engine, technique, text, note, ref = CHECKS[pid]
        checks.append(dict(
            property_id=pid,
            quick_cmd=f"./vt check {pid} --tier quick",
            thorough_cmd=f"./vt check {pid} --tier thorough",
            evidence_file=f"evidence/{pid}.json",
            replay_cmd_template="./vt replay {path}",
            engine=engine,
            level_claimed=dict(category="other", text=text, design_ref=ref),
            level_note=note,
            technique=technique,
        ))
    na = []
    for pid in props:
        if pid in CHECKS:
            continue
        na.append(dict(property_id=pid, reason=NOT_APPLICABLE.get(pid, PENDING_REASON)))
    man = dict(
        version=1,
        setup_cmd="./vt setup",
        hooks=dict(guard="SEDPACK_VERIF", enable="no source hooks: harnesses inject stubs by assigning module attributes; "
                   "./vt exports SEDPACK_VERIF=1 for completeness", baseline_off_cmd=BASELINE, source_commits=[], add_only=True),
        engines=[
            dict(name="symx", path="vtlib/symx.py", serves_properties=[p for p, v in CHECKS.items() if "symx" in v[0]],
                 kind_free_text="proxy-based symbolic executor for the real Python code on z3 (fork at bool, realise at C "
                                "boundaries, prove = unsat of path condition and negated property)"),
            dict(name="pocomp", path="vtlib/pocomp.py", serves_properties=[p for p, v in CHECKS.items() if "pocomp" in v[0]],
                 kind_free_text="thread-modular path summaries extracted by symx from the real thread bodies, composed in z3 "
                                "as a partial order (timestamps, FIFO ranks)"),
            dict(name="mirx", path="vtlib/mirx.py", serves_properties=[p for p, v in CHECKS.items() if "mirx" in v[0]],
                 kind_free_text="abstract interpreter over rustc MIR of rust/src/parallel_map.rs producing event summaries"),
        ],
        checks=checks,
        notes="Solver-based checking of the real code; see DESIGN.md. Exit codes: 0 held, 1 VIOLATION (replay-confirmed), "
              "2 inconclusive, 3 harness error. Known findings: known_findings.json.",
        not_applicable=na,
    )
    (VERIF / "MANIFEST.json").write_text(json.dumps(man, indent=1) + "\n")
    print(f"MANIFEST.json: {len(checks)} checks, {len(na)} not claimed")


if __name__ == "__main__":
    sys.exit(main())
