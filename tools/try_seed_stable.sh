#!/bin/bash
# like try_seed.sh but on the scratch worktree /tmp/wt/stable (VT_REPO), so that it can run while /repo is busy
patch="$1"; shift
W=/tmp/wt/stable
cd $W || exit 2
if [ -n "$(git status --porcelain --untracked-files=no)" ]; then echo "$W is dirty, refusing"; exit 2; fi
trap 'git -C $W checkout -- .' EXIT
git apply "$patch" || { echo "patch does not apply"; exit 2; }
cd /verif
for id in "$@"; do
  out=$(VT_REPO=$W timeout ${SEED_TIMEOUT:-1500} ./vt check $id --tier ${TIER:-quick} 2>&1); rc=$?
  echo "== $id exit=$rc"; echo "$out" | grep -E "VIOLATION|what:|HARNESS|INCONCLUSIVE|tier=" | head -6
done
