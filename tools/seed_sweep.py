#!/usr/bin/env python3
"""seed_sweep.py [names...] : for every seeded change apply it to /repo, run the quick check(s) that should notice it,
undo it, and write seeded/<name>/detect.json (which check reported VIOLATION / inconclusive / nothing)."""
import json, os, subprocess, sys, time
from pathlib import Path
SEEDED = Path("/verif/seeded")
REPO = os.environ.get("VT_REPO", "/repo")  # a scratch worktree of /repo at the same commit may stand in while /repo is busy
ALSO = {"C09-m6": ["C04", "C08"], "C01-m6": ["C18"], "C02-m5": ["C08"], "C19-m3": ["C02"], "C07-m5": ["C13"], "C03-m3": ["C15"], "C03-m4": ["C09"], "C04-m4": ["C18"], "C02-m2": ["C13"], "C04-m1": ["C08"], "C04-m2": ["C08"], "C08-m1": ["C04"], "C10-m1": ["C11"]}
names = sys.argv[1:] or sorted(p.name for p in SEEDED.iterdir() if p.is_dir())
for name in names:
    d = SEEDED / name
    prop = name.split("-")[0]
    checks = [prop] + ALSO.get(name, [])
    assert not subprocess.run(["git", "-C", REPO, "status", "--porcelain", "--untracked-files=no"], capture_output=True, text=True).stdout.strip(), "/repo dirty"
    r = subprocess.run(["git", "-C", REPO, "apply", str(d / "patch.diff")], capture_output=True, text=True)
    if r.returncode:
        print(name, "PATCH DOES NOT APPLY"); continue
    out = {}
    try:
        for c in checks:
            t = time.time()
            p = subprocess.run(["./vt", "check", c, "--tier", "quick"], cwd="/verif", capture_output=True, text=True, timeout=2400)
            lines = [l for l in p.stdout.split("\n") if l.startswith("VIOLATION") or l.strip().startswith("what:")]
            out[c] = dict(exit=p.returncode, detected=(p.returncode == 1 and any(l.startswith("VIOLATION") for l in lines)),
                          first=[l[:300] for l in lines[:2]], wall_s=round(time.time() - t, 1))
    finally:
        subprocess.run(["git", "-C", REPO, "checkout", "--", "."])
    (d / "detect.json").write_text(json.dumps(out, indent=1) + "\n")
    print(name, {c: ("DETECTED" if v["detected"] else f"exit={v['exit']}") for c, v in out.items()}, flush=True)
