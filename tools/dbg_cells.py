"""Debug helper: run the cells of a check one by one with a per-cell alarm.  usage: dbg_cells.py c14 quick [secs]"""
import importlib
import signal
import sys
import time
import traceback

from vtlib import common

mod = importlib.import_module(f"vtlib.checks.{sys.argv[1]}")
tier = sys.argv[2] if len(sys.argv) > 2 else "quick"
secs = int(sys.argv[3]) if len(sys.argv) > 3 else 30
common.import_sedpack()


def handler(sig, frm):
    traceback.print_stack(frm)
    raise SystemExit(1)


signal.signal(signal.SIGALRM, handler)
tot = 0
for c in mod.cells(tier):
    t = time.time()
    signal.alarm(secs)
    try:
        st = mod._cell(c)
        tot += st.paths
        print(round(time.time() - t, 1), st.paths, c, st.inconclusive[:1], [x["msg"][:100] for x in st.cex[:1]], flush=True)
    except SystemExit:
        print("TIMEOUT", c, flush=True)
    finally:
        signal.alarm(0)
print("total paths", tot)
