#!/usr/bin/env python3
"""keep_seed.py PROP NAME SRC_DIR : copy a confirmed seeded change into /verif/seeded/<PROP>-<NAME>/ with meta.json."""
import json, shutil, sys
from pathlib import Path
prop, name, src = sys.argv[1], sys.argv[2], Path(sys.argv[3])
dst = Path("/verif/seeded") / f"{prop}-{name}"
dst.mkdir(parents=True, exist_ok=True)
for f in ("patch.diff", "demo.py", "notes.md"):
    if (src / f).exists():
        shutil.copy(src / f, dst / f)
conf = json.loads((src / "confirm.json").read_text())
assert conf["applies"] and conf["demo_clean_exit"] == 0 and conf["demo_mutated_exit"] != 0 and conf["suite_exit"] == 0, conf
notes = (src / "notes.md").read_text() if (src / "notes.md").exists() else ""
meta = dict(property=prop, name=name, breaks=prop,
            needs_to_manifest=notes.strip()[:1500],
            origin="independent sub-agent given only the property text and a scratch worktree of /repo (HEAD with the fix: commits)",
            confirmed=dict(how="tools/confirm_seed.sh in a scratch worktree: demo on clean tree exits 0, demo with patch exits non-zero, "
                               "full pinned test suite passes with the patch", **conf))
(dst / "meta.json").write_text(json.dumps(meta, indent=1) + "\n")
print("kept", dst)
