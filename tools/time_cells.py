"""time_cells.py <cNN> <tier> [cap_s] : run every cell of a check in a 16-process pool, print wall time per cell (cells over the cap are cut)."""
import importlib, multiprocessing as mp, os, signal, sys, time
from vtlib import common
mod = importlib.import_module(f"vtlib.checks.{sys.argv[1]}")
tier = sys.argv[2]
cap = int(sys.argv[3]) if len(sys.argv) > 3 else 900
os.environ["VT_CELL_BUDGET_S"] = str(cap)


def one(c):
    t = time.time()
    try:
        st = mod._cell(c)
        return round(time.time() - t, 1), st.paths, c, st.inconclusive[:1], len(st.cex)
    except BaseException as exc:  # noqa: BLE001
        return round(time.time() - t, 1), -1, c, [repr(exc)[:80]], 0


if __name__ == "__main__":
    common.import_sedpack()
    with mp.get_context("fork").Pool(16) as pool:
        for r in pool.imap_unordered(one, mod.cells(tier)):
            print(*r, flush=True)
