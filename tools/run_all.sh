#!/bin/bash
# run_all.sh [quick|thorough] : every registered check against /repo, sequentially; prints one line per check.
tier=${1:-quick}
cd /verif
for id in $(python3 -c "import json; print(' '.join(c['property_id'] for c in json.load(open('MANIFEST.json'))['checks']))"); do
  s=$(date +%s.%N); out=$(./vt check $id --tier $tier 2>&1); rc=$?; e=$(date +%s.%N)
  printf "%s rc=%s wall=%.1fs known=%s %s\n" $id $rc $(echo "$e - $s" | bc) $(echo "$out" | grep -c '^KNOWN-FINDING') "$(echo "$out" | grep -E '^VIOLATION|^HARNESS|^INCONCLUSIVE' | head -2 | tr '\n' ' ' | cut -c1-200)"
done
