#!/bin/bash
# try_seed.sh <patch.diff> <ID> [<ID>...]  : apply the patch to /repo, run the quick checks, undo.
patch="$1"; shift
cd /repo && git apply "$patch" || { echo "patch does not apply"; exit 2; }
if git diff --name-only | grep -q '^rust/'; then echo "(rust change)"; fi
cd /verif
for id in "$@"; do
  out=$(./vt check $id --tier ${TIER:-quick} 2>&1); rc=$?
  echo "== $id exit=$rc"; echo "$out" | grep -E "VIOLATION|what:|HARNESS|INCONCLUSIVE|tier=" | head -8
done
git -C /repo checkout -- .
