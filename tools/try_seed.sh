#!/bin/bash
# try_seed.sh <patch.diff> <ID> [<ID>...]  : apply the patch to /repo, run the quick checks, undo (always).
patch="$1"; shift
cd /repo || exit 2
if [ -n "$(git status --porcelain --untracked-files=no)" ]; then echo "/repo is dirty, refusing"; exit 2; fi
trap 'git -C /repo checkout -- . ; [ -f /tmp/vt_orig_so ] && { cp /tmp/vt_orig_so /repo/src/sedpack/_sedpack_rs.cpython-312-x86_64-linux-gnu.so.tmp && mv /repo/src/sedpack/_sedpack_rs.cpython-312-x86_64-linux-gnu.so.tmp /repo/src/sedpack/_sedpack_rs.cpython-312-x86_64-linux-gnu.so; rm -f /tmp/vt_orig_so; }' EXIT
git apply "$patch" || { echo "patch does not apply"; exit 2; }
cd /verif
for id in "$@"; do
  out=$(timeout ${SEED_TIMEOUT:-1500} ./vt check $id --tier ${TIER:-quick} 2>&1); rc=$?
  echo "== $id exit=$rc"; echo "$out" | grep -E "VIOLATION|what:|HARNESS|INCONCLUSIVE|tier=" | head -8
done
