#!/bin/bash
# confirm_seed.sh <name> <dir-with-patch.diff-and-demo.py>
# In a scratch worktree of /repo HEAD: demo passes without the patch, fails with it, full test suite passes with it.
# Writes <dir>/confirm.json ; removes the worktree afterwards.
name="$1"; dir="$2"
wt=/tmp/wt/confirm_$name
git -C /repo worktree remove --force $wt 2>/dev/null
git -C /repo worktree add -q --detach $wt HEAD || exit 2
cp /repo/src/sedpack/_sedpack_rs.cpython-312-x86_64-linux-gnu.so $wt/src/sedpack/
export PYTHONPATH=$wt/src TF_CPP_MIN_LOG_LEVEL=3 CUDA_VISIBLE_DEVICES=""
cd $wt
timeout 600 /venv/bin/python $dir/demo.py > $dir/confirm_demo_clean.log 2>&1; clean=$?
git apply $dir/patch.diff || { echo '{"applies": false}' > $dir/confirm.json; cd /; git -C /repo worktree remove --force $wt; exit 1; }
if git diff --name-only | grep -q '^rust/'; then
  (cd rust && cargo build --release --offline --features pyo3/extension-module >/dev/null 2>&1 && cp target/release/libsedpack_rs.so ../src/sedpack/_sedpack_rs.cpython-312-x86_64-linux-gnu.so)
fi
timeout 600 /venv/bin/python $dir/demo.py > $dir/confirm_demo_mut.log 2>&1; mut=$?
timeout 3000 /venv/bin/python -m pytest -q -p no:cacheprovider --timeout=900 > $dir/confirm_suite.log 2>&1; suite=$?
summary=$(tail -1 $dir/confirm_suite.log)
echo "{\"applies\": true, \"demo_clean_exit\": $clean, \"demo_mutated_exit\": $mut, \"suite_exit\": $suite, \"suite_summary\": \"$summary\"}" > $dir/confirm.json
cd /; git -C /repo worktree remove --force $wt
cat $dir/confirm.json
