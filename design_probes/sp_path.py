import sys, types, time, z3
sys.modules["tensorflow"]=types.ModuleType("tensorflow")  # not needed by these modules' top level? may fail
sys.path.insert(0,"/repo/src")
from symx import *
# component classes
DD,DOT,EMPTY,NAME,SLJ=range(5)
TOK={DD:"..",DOT:".",EMPTY:"",NAME:"x",SLJ:"shards_list.json"}
K=5
class SymStr:
    def __init__(s,e,cases): s.e=e; s.cases=cases   # list of (cond, pystr)
    def __eq__(s,o): return SymBool(s.e,z3.Or([c for c,v in s.cases if v==o]+[z3.BoolVal(False)]))
    def __ne__(s,o): return SymBool(s.e,z3.Not(z3.Or([c for c,v in s.cases if v==o]+[z3.BoolVal(False)])))
    def __format__(s,spec): return "<sym>"
    __str__=__repr__=lambda s:"<sym>"
class SymParts:
    def __init__(s,p): s.p=p
    def __contains__(s,o):
        p=s.p; alts=[z3.And(i<p.L,p.c[i]==k) for i in range(K) for k in (DD,NAME,SLJ) if TOK[k]==o]
        if o=="/": alts.append(p.absolute)
        return bool(SymBool(p.e,z3.Or(alts+[z3.BoolVal(False)])))
class SymPath:
    def __init__(s,e,name="p"):
        s.e=e; s.L=z3.Int(name+"_L"); s.c=[z3.Int(f"{name}_c{i}") for i in range(K)]; s.absolute=z3.Bool(name+"_abs")
        e.solver.add(s.L>=0,s.L<=K,*[z3.And(c>=0,c<=4) for c in s.c])
    @property
    def parts(s): return SymParts(s)
    @property
    def name(s):
        # last component that is not "." / "" ; "" if none
        cases=[]
        for i in range(K):
            real=lambda j: z3.And(j<s.L, s.c[j]!=DOT, s.c[j]!=EMPTY) if isinstance(j,int) else None
            later_none=z3.And([z3.Not(z3.And(j<s.L,s.c[j]!=DOT,s.c[j]!=EMPTY)) for j in range(i+1,K)]+[z3.BoolVal(True)])
            for k in (DD,NAME,SLJ): cases.append((z3.And(i<s.L,s.c[i]==k,later_none),TOK[k]))
        return SymStr(s.e,cases)
    def is_absolute(s): return SymBool(s.e,s.absolute)
    def __format__(s,spec): return "<sympath>"
    def escapes(s):
        """lexical: root/p leaves root  <=> absolute, or some prefix has more '..' than names"""
        depth=z3.IntVal(0); bad=z3.BoolVal(False)
        for i in range(K):
            act=i<s.L
            depth=z3.If(act,z3.If(s.c[i]==DD,depth-1,z3.If(z3.Or(s.c[i]==NAME,s.c[i]==SLJ),depth+1,depth)),depth)
            bad=z3.Or(bad,z3.And(act,depth<0))
        return z3.Or(s.absolute,bad)
from sedpack.io.file_info import FileInfo
from sedpack.io.shard_file_metadata import ShardsList
res=[]
def harness(e):
    p=SymPath(e)
    for nm,val in (("FileInfo.no_directory_traversal",FileInfo.no_directory_traversal),("ShardsList.check_is_shards_list",ShardsList.check_is_shards_list)):
        try: val(p)
        except ValueError: continue
        if e.check(p.escapes())==z3.sat:
            m=e.solver.model(); L=m.eval(p.L,model_completion=True).as_long()
            s=("/" if z3.is_true(m.eval(p.absolute,model_completion=True)) else "")+"/".join(TOK[m.eval(p.c[i],model_completion=True).as_long()] for i in range(L))
            res.append((nm,s))
t=time.time(); print(explore(harness),round(time.time()-t,2)); print(sorted(set(res))[:6])
