import sys, types, tempfile
sys.path.insert(0,"/repo/src")
from pathlib import Path
import numpy as np
from sedpack.io import Dataset, Metadata, DatasetStructure, Attribute
for ft in ["fb","npz","tfrec"]:
    tmp=Path(tempfile.mkdtemp())
    ds=DatasetStructure(saved_data_description=[Attribute(name="a",dtype="int32",shape=(2,))],shard_file_type=ft,compression="",examples_per_shard=2)
    d=Dataset.create(path=tmp,metadata=Metadata(),dataset_structure=ds)
    try:
        with d.filler() as f:
            try: f.write_example({"a":np.zeros((3,),np.int32)},split="train",custom_metadata={"k":"A"})
            except ValueError as e: print(ft,"bad write rejected:",str(e)[:50])
            f.write_example({"a":np.array([1,1],np.int32)},split="train",custom_metadata={"k":"B"})
            f.write_example({"a":np.array([2,2],np.int32)},split="train",custom_metadata={"k":"B"})
        print(ft,"OK",[ (int(e["a"][0])) for e in d.as_numpy_iterator(split="train",repeat=False,shuffle=0)],[(s.number_of_examples,s.custom_metadata) for s in d.shard_info_iterator("train")])
    except BaseException as e:
        print(ft,"SESSION FAILED",type(e).__name__,str(e)[:120])
