import z3, time, sys
T=int(sys.argv[1]); FAIL=len(sys.argv)>2 and sys.argv[2]=="fail"; NMAX=int(sys.argv[3]) if len(sys.argv)>3 else None
QCAP=3*T+3
SENT=-1
names=["n","failidx","cpc","it","i","active","emitted","qp_h","qp_t","qr_h","qr_t"]+[f"wpc{w}" for w in range(T)]+[f"wx{w}" for w in range(T)]+[f"qp{j}" for j in range(QCAP)]+[f"qr{j}" for j in range(QCAP)]
def st(tag): return {nm:z3.Int(f"{nm}{tag}") for nm in names}
s=st("")
def qget(s,q,idx):
    e=s[f"{q}{QCAP-1}"]
    for j in range(QCAP-2,-1,-1): e=z3.If(idx==j,s[f"{q}{j}"],e)
    return e
def qput(s,ns,q,val):
    t=s[f"{q}_t"]
    for j in range(QCAP): ns[f"{q}{j}"]=z3.If(t==j,val,s[f"{q}{j}"])
    ns[f"{q}_t"]=t+1
def nxt(s): return z3.If(s["it"]<s["n"],s["it"],SENT)
trans=[]
def tr(f): trans.append(f); return f
@tr
def c_prefill(s):
    g=z3.And(s["cpc"]==0,s["qp_t"]<QCAP); ns=dict(s); qput(s,ns,"qp",nxt(s)); ns["it"]=s["it"]+1
    brk=s["i"]>2*T
    ns["cpc"]=z3.If(brk,z3.IntVal(1),z3.IntVal(0)); ns["i"]=z3.If(brk,s["i"],s["i"]+1); return g,ns
@tr
def c_get(s):
    g=z3.And(s["cpc"]==1,s["active"]>0,s["qr_h"]<s["qr_t"]); ns=dict(s)
    v=qget(s,"qr",s["qr_h"]); ns["qr_h"]=s["qr_h"]+1
    issent=v==SENT
    ns["active"]=z3.If(issent,s["active"]-1,s["active"])
    ns["cpc"]=z3.If(issent,z3.If(s["active"]-1>0,z3.IntVal(1),z3.IntVal(4)),z3.IntVal(2))
    ns["i"]=z3.If(z3.And(issent,s["active"]-1<=0),z3.IntVal(0),s["i"])
    return g,ns
@tr
def c_put(s):
    g=s["cpc"]==2; ns=dict(s); qput(s,ns,"qp",nxt(s)); ns["it"]=s["it"]+1; ns["cpc"]=z3.IntVal(3); return g,ns
@tr
def c_yield(s):
    g=s["cpc"]==3; ns=dict(s); ns["emitted"]=s["emitted"]+1; ns["cpc"]=z3.IntVal(1); return g,ns
@tr
def c_fin(s):
    g=s["cpc"]==4; ns=dict(s); qput(s,ns,"qp",z3.IntVal(SENT)); ns["i"]=s["i"]+1
    ns["cpc"]=z3.If(s["i"]+1>=T,z3.IntVal(5),z3.IntVal(4)); return g,ns
for w in range(T):
    def mk(w):
        @tr
        def w_get(s):
            g=z3.And(s[f"wpc{w}"]==0,s["qp_h"]<s["qp_t"]); ns=dict(s)
            v=qget(s,"qp",s["qp_h"]); ns["qp_h"]=s["qp_h"]+1; ns[f"wx{w}"]=v
            ns[f"wpc{w}"]=z3.If(v==SENT,z3.IntVal(1),z3.IntVal(2)); return g,ns
        @tr
        def w_putsent(s):
            g=s[f"wpc{w}"]==1; ns=dict(s); qput(s,ns,"qr",z3.IntVal(SENT)); ns[f"wpc{w}"]=z3.IntVal(9); return g,ns
        @tr
        def w_putres(s):
            g=s[f"wpc{w}"]==2; ns=dict(s)
            fails=z3.And(z3.BoolVal(FAIL),s[f"wx{w}"]==s["failidx"])
            qput(s,ns,"qr",s[f"wx{w}"])
            for kk in list(ns):
                if kk.startswith("qr"): ns[kk]=z3.If(fails,s[kk],ns[kk])
            ns[f"wpc{w}"]=z3.If(fails,z3.IntVal(8),z3.IntVal(0)); return g,ns
    mk(w)
fp=z3.Fixedpoint(); fp.set(engine="spacer")
Inv=z3.Function("Inv",*([z3.IntSort()]*len(names)),z3.BoolSort()); fp.register_relation(Inv)
Bad=z3.Function("Bad",z3.BoolSort()); fp.register_relation(Bad)
vs=[s[nm] for nm in names]; fp.declare_var(*vs)
# NOTE: queue indices are ring-free (monotone) -> unbounded n needs ring buffer; bound n for probe
init=[s["n"]>=0, s["failidx"]>=0, s["failidx"]<s["n"]] + ([s["n"]<=NMAX] if NMAX is not None else [])
init+=[s[nm]==(T if nm=="active" else 0) for nm in names if nm not in("n","failidx") and not (nm[:2] in("qp","qr") and nm[2:].isdigit())]
fp.rule(Inv(*vs),init)
for f in trans:
    g,ns=f(s)
    fp.rule(Inv(*[ns[nm] for nm in names]),[Inv(*vs),g])
enabled=z3.Or([f(s)[0] for f in trans])
final=z3.And(s["cpc"]==5,*[s[f"wpc{w}"]==9 for w in range(T)])
fp.rule(Bad(),[Inv(*vs),z3.Not(enabled),z3.Not(final)])
t=time.time(); r=fp.query(Bad()); print("deadlock:",r,time.time()-t)
Bad2=z3.Function("Bad2",z3.BoolSort()); fp.register_relation(Bad2)
fp.rule(Bad2(),[Inv(*vs),final,s["emitted"]!=s["n"]])
t=time.time(); r=fp.query(Bad2()); print("wrong count at final:",r,time.time()-t)
