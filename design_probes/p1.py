import sys, tempfile, shutil, traceback
from pathlib import Path
import numpy as np
from sedpack.io import Dataset, Metadata, DatasetStructure, Attribute
def mk(tmp, ft="fb", comp="", eps=2, attrs=None):
    ds = DatasetStructure(saved_data_description=attrs or [Attribute(name="a", dtype="int32", shape=(2,))],
        shard_file_type=ft, compression=comp, examples_per_shard=eps)
    return Dataset.create(path=tmp, metadata=Metadata(description="x"), dataset_structure=ds)
def count(d, split="train"):
    return [int(e["a"][0]) for e in d.as_numpy_iterator(split=split, repeat=False, shuffle=0)]
# --- reuse of sub-directory
tmp = Path(tempfile.mkdtemp())
d = mk(tmp)
from sedpack.io.dataset_filler import DatasetFiller
with DatasetFiller(d, relative_path_from_split=Path("a")) as f:
    for i in range(3): f.write_example({"a": np.array([i,i],np.int32)}, split="train")
print("after s1", count(d))
try:
    with DatasetFiller(d, relative_path_from_split=Path("a")) as f:
        for i in range(3,6): f.write_example({"a": np.array([i,i],np.int32)}, split="train")
    print("after s2 reuse", count(d))
except BaseException as e:
    print("REUSE FAIL", type(e), e)
# nested
try:
    with DatasetFiller(d, relative_path_from_split=Path("b/c")) as f:
        for i in range(6,9): f.write_example({"a": np.array([i,i],np.int32)}, split="train")
    print("after nested", count(d)); d.check(show_progressbar=False)
except BaseException as e:
    print("NESTED FAIL", type(e), e); traceback.print_exc()
# root after children
try:
    with d.filler() as f:
        for i in range(9,12): f.write_example({"a": np.array([i,i],np.int32)}, split="train")
    print("after root", count(d)); d.check(show_progressbar=False)
    d2 = Dataset(tmp); print("reopen", count(d2), d2._dataset_info == d._dataset_info)
    print(d2._dataset_info.splits)
except BaseException as e:
    print("ROOT FAIL", type(e), e); traceback.print_exc()
