import sys, types, time, z3
sys.modules["tensorflow"]=types.ModuleType("tensorflow"); sys.path.insert(0,"/repo/src")
from pathlib import Path
from symx import *
import semver, sedpack
import sedpack.io.dataset_base as DB
from sedpack.io.metadata import DatasetInfo
cur=semver.Version.parse(sedpack.__version__); print("running",cur)
real_parse=semver.Version.parse
def harness(e):
    a,b,c=[e.fresh_int(x,0,None) for x in "abc"]
    info=DatasetInfo(); info.metadata.sedpack_version="SYMBOLIC"
    def parse(version,*k,**kw):
        if version=="SYMBOLIC":
            v=object.__new__(semver.Version); v._major,v._minor,v._patch,v._prerelease,v._build=a,b,c,None,None; return v
        return real_parse(version,*k,**kw)
    semver.Version.parse=classmethod(lambda cls,version,*k,**kw: parse(version,*k,**kw))
    DB.DatasetInfo=types.SimpleNamespace(model_validate_json=lambda txt: info)
    DB.DatasetBase._get_config_path=staticmethod(lambda path,relative=False: types.SimpleNamespace(read_text=lambda encoding=None:"{}"))
    newer=z3.Or(a.z>cur.major,z3.And(a.z==cur.major,b.z>cur.minor),z3.And(a.z==cur.major,b.z==cur.minor,c.z>cur.patch))
    try:
        DB.DatasetBase._load(Path("/x")); e.prove(z3.Not(newer),"loaded although newer")
    except ValueError:
        e.prove(newer,"refused although not newer")
t=time.time(); print(explore(harness),round(time.time()-t,2))
