"""POC: abstract interpreter over rustc MIR text -> per-thread event paths (worker closure and ParallelMap::next)."""
import re, sys, itertools
SRC=open("/tmp/probe/sedpack.mir").read()
def fn_text(header_re):
    m=re.search(header_re,SRC,re.M); assert m,header_re
    start=m.start(); end=SRC.index("\n}\n",start); return SRC[start:end+3]
def parse_blocks(txt):
    blocks={}
    for m in re.finditer(r"^    (bb\d+)(?: \(cleanup\))?: \{\n(.*?)^    \}",txt,re.M|re.S):
        stmts=[l.strip() for l in m.group(2).split("\n") if l.strip()]
        blocks[m.group(1)]=stmts
    return blocks
# ---- tiny expression parsing with bracket matching
def strip_generics(s):
    out=[];d=0
    for ch in s:
        if ch=="<": d+=1
        elif ch==">": d-=1
        elif d==0: out.append(ch)
    return "".join(out)
def callee_key(c):
    c=c.strip()
    if c.startswith("<"):
        d=0
        for i,ch in enumerate(c):
            if ch=="<": d+=1
            elif ch==">":
                d-=1
                if d==0: break
        inner=c[1:i]; rest=c[i+1:]
        return re.sub(r":{3,}","::",strip_generics(inner).replace("&","").strip()+strip_generics(rest))
    return re.sub(r":{3,}","::",strip_generics(c))
def split_top(s,sep=","):
    parts=[];d=0;cur=[]
    for ch in s:
        if ch in "([{<": d+=1
        if ch in ")]}>": d-=1
        if ch==sep and d==0: parts.append("".join(cur).strip()); cur=[]
        else: cur.append(ch)
    if "".join(cur).strip(): parts.append("".join(cur).strip())
    return parts
class Enum:
    def __init__(s,variant,payload=()): s.variant=variant; s.payload=list(payload)
    def __repr__(s): return f"{s.variant}{tuple(s.payload)}"
DISC={"None":0,"Some":1,"Ok":0,"Err":1}
class Struct:
    def __init__(s,fields): s.f=fields
    def __repr__(s): return f"S{s.f}"
class Interp:
    def __init__(s,blocks,env,oracle,log): s.b=blocks; s.env=env; s.oracle=oracle; s.log=log
    def place_get(s,p):
        p=p.strip()
        if re.fullmatch(r"_\d+",p): return s.env[p]
        if p.startswith("(*") and p.endswith(")") : return s.place_get(p[2:-1])
        if p.startswith("(") and p.endswith(")"):
            inner=p[1:-1]
            if has_top_colon(inner):
                base,k=split_field(inner); v=s.place_get(base)
                return v.payload[k] if isinstance(v,Enum) else v.f[k]
            m=re.match(r"(.*) as (\w+)$",inner)
            if m:
                v=s.place_get(m.group(1)); assert v.variant==m.group(2),(v,p); return v
        raise NotImplementedError("place "+p)
    def place_set(s,p,val):
        p=p.strip()
        if re.fullmatch(r"_\d+",p): s.env[p]=val; return
        if p.startswith("(*") and p.endswith(")"): return s.place_set(p[2:-1],val)  # unreachable for ints by-ref in this POC
        inner=p[1:-1]; base,k=split_field(inner); s.place_get(base).f[k]=val
    def operand(s,o):
        o=o.strip()
        if o.startswith("copy ") or o.startswith("move "): return s.place_get(o[5:])
        if o.startswith("const "):
            c=o[6:]; m=re.match(r"(\d+)_",c)
            if m: return int(m.group(1))
            return {"true":True,"false":False}.get(c,c)
        raise NotImplementedError("operand "+o)
    def rvalue(s,r):
        r=r.strip()
        if r.startswith("&mut "): return s.place_get(r[5:])
        if r.startswith("&"): return s.place_get(r[1:])
        if r.startswith(("copy ","move ","const ")): return s.operand(r)
        m=re.match(r"discriminant\((.*)\)$",r)
        if m: return DISC[s.place_get(m.group(1)).variant]
        m=re.match(r"(\w+)\((.*)\)$",r)
        if m and m.group(1) in("Eq","Rem","Ge","Lt","AddWithOverflow"):
            a,b=[s.operand(x) for x in split_top(m.group(2))]
            return {"Eq":lambda:a==b,"Rem":lambda:a%b,"Ge":lambda:a>=b,"Lt":lambda:a<b,"AddWithOverflow":lambda:Struct({0:a+b,1:False})}[m.group(1)]()
        g=strip_generics(r)
        m=re.match(r"(?:std::option::)?Option::+(Some|None)(?:\((.*)\))?$",g)
        if m: return Enum(m.group(1),[s.operand(m.group(2)[:])] if m.group(2) else [])
        m=re.match(r"(.*?)\s*\{(.*)\}$",g,re.S)
        if m and "{" in r:
            body=r[r.index("{",r.index("}")+1 if r.startswith("{closure") else 0)+1:r.rindex("}")]
            fields=[x.split(": ",1)[1] for x in split_top(body)]
            return Struct({i:s.operand(f) for i,f in enumerate(fields)})
        raise NotImplementedError("rvalue "+r)
    def call(s,callee,args):
        g=callee_key(callee); a=[s.operand(x) for x in split_top(args)]
        if re.search(r"Receiver::+recv$",g): return s.oracle.recv(a[0])
        if re.search(r"Sender::+send$",g): return s.oracle.send(a[0],a[1])
        if re.fullmatch(r"_\d+",callee.replace("move ","").replace("copy ","").strip()): return s.oracle.fun(a[0])
        if g.endswith("Vec::new"): return []
        if g.endswith("::push"): a[0].append(a[1]); return None
        if g.endswith("::pop"): return Enum("Some",[a[0].pop()]) if a[0] else Enum("None")
        if g.endswith("::clear"):
            for c in a[0]: s.oracle.drop(c)
            del a[0][:]; return None
        if g.endswith("into_iter"):
            return a[0] if isinstance(a[0],Struct) else Struct({"seq":a[0],"i":0})
        if "Range" in g and g.endswith("::next"):
            r_=a[0]
            if r_.f[0]<r_.f[1]: r_.f[0]+=1; return Enum("Some",[r_.f[0]-1])
            return Enum("None")
        if "slice::Iter" in g and g.endswith("::next"):
            it_=a[0]
            if it_.f["i"]<len(it_.f["seq"]): it_.f["i"]+=1; return Enum("Some",[it_.f["seq"][it_.f["i"]-1]])
            return Enum("None")
        if g.endswith("new_pair"):
            w=s.oracle.newchan(); return Struct({0:Struct({0:f"tasks{w}.tx",1:f"results{w}.rx"}),1:Struct({0:f"results{w}.tx",1:f"tasks{w}.rx"})})
        if g.startswith("spawn"): s.log.append(("spawn",repr(a[0]))); return ("handle",len(s.log))
        if g.endswith("JoinHandle::join"): s.log.append(("join",a[0])); return Enum("Ok",[None])
        if g.endswith("is_empty"): return len(a[0])==0
        if g.endswith("::len"): return len(a[0])
        if g.endswith("::index"): return a[0][a[1]]
        if g.endswith("unwrap_or_default"): 
            v=a[0]; r=v.payload[0] if v.variant=="Ok" else Enum("None"); s.log.append(("next_returns",r.variant,"(recv was %s)"%v.variant)); return r
        if g.startswith("I as") and g.endswith("::next"): return s.oracle.iter_next(a[0])
        raise NotImplementedError("callee "+g)
    def run(s,bb="bb0",fuel=400):
        while fuel:
            fuel-=1
            for st in s.b[bb][:-1]: s.stmt(st)
            t=s.b[bb][-1]
            if t.startswith("goto -> "): bb=t[8:-1]; continue
            if t=="return;": s.log.append(("END",)); return "return"
            if t=="resume;": s.log.append(("UNWOUND",)); return "resume"
            if t=="unreachable;": raise RuntimeError("unreachable reached")
            m=re.match(r"switchInt\((.*)\) -> \[(.*)\];$",t)
            if m:
                v=s.operand(m.group(1)); v=int(v); tgt=None
                for arm in split_top(m.group(2)):
                    k,b_=arm.split(": ")
                    if k=="otherwise": tgt=tgt or b_
                    elif int(k)==v: tgt=b_
                bb=tgt; continue
            m=re.match(r"drop\((.*)\) -> \[return: (bb\d+), unwind[: ]*(.*)\];$",t)
            if m:
                s.oracle.drop(s.try_get(m.group(1))); bb=m.group(2); continue
            m=re.match(r"assert\((.*)\) -> \[success: (bb\d+), unwind: (bb\d+)\];$",t)
            if m:
                cond=split_top(m.group(1))[0]; neg=cond.startswith("!"); v=s.operand(cond.lstrip("!"))
                if bool(v)==(not neg): bb=m.group(2)
                else: s.log.append(("PANIC",cond)); bb=m.group(3)
                continue
            m=re.match(r"(\S+) = (.*) -> \[return: (bb\d+), unwind(?:: (bb\d+)| continue)\];$",t)
            if m:
                lhs,callexpr,ret,unw=m.groups()
                d=0
                for i in range(len(callexpr)-1,-1,-1):
                    if callexpr[i]==")": d+=1
                    elif callexpr[i]=="(":
                        d-=1
                        if d==0: break
                callee,args=callexpr[:i],callexpr[i+1:-1]
                try: val=s.call(callee,args)
                except Unwind:
                    if unw is None: s.log.append(("UNWOUND",)); return "resume"
                    bb=unw; continue
                s.place_set(lhs,val); bb=ret; continue
            m=re.match(r"(\S+) = panic\((.*)\) -> (bb\d+);$",t)
            if m: s.log.append(("PANIC",m.group(2))); bb=m.group(3); continue
            m=re.match(r"(\S+) = (.*?)\((.*)\) -> \[return: (bb\d+), unwind terminate.*\];$",t)
            raise NotImplementedError("terminator "+t)
        raise RuntimeError("fuel")
    def try_get(s,p):
        try: return s.place_get(p)
        except Exception: return None
    def stmt(s,st):
        m=re.match(r"(.+?) = (.*);$",st); assert m,st
        s.place_set(m.group(1),s.rvalue(m.group(2)))
class Unwind(Exception): pass
def has_top_colon(inner):
    d=0
    for i,ch in enumerate(inner):
        if ch in "(<[": d+=1
        elif ch in ")>]": d-=1
        elif ch==":" and d==0 and inner[i+1:i+2]==" ": return True
    return False
def split_field(inner):
    # "<base>.<k>: <Type>"  -> base,k ; base may contain parens
    d=0
    for i,ch in enumerate(inner):
        if ch in "(<[": d+=1
        elif ch in ")>]": d-=1
        elif ch==":" and d==0 and inner[i+1]==" ":
            left=inner[:i]; j=left.rfind("."); return left[:j],int(left[j+1:])
    raise NotImplementedError("field "+inner)
# ---------- exploration by decision replay (the real thing would use symx)
class Oracle:
    def __init__(s,decisions,log): s.d=list(decisions); s.log=log; s.used=0; s.more=[]
    def choose(s,n,tag):
        if s.used<len(s.d): c=s.d[s.used]
        else: c=0; s.d.append(0)
        s.more.append(n); s.used+=1; return c
    def recv(s,ch):
        c=s.choose(3,"recv"); s.log.append(("get",ch,["Ok(Some)","Ok(None)","Err"][c]))
        return [Enum("Ok",[Enum("Some",[("item",len(s.log))])]),Enum("Ok",[Enum("None")]),Enum("Err",[None])][c]
    def send(s,ch,v):
        c=s.choose(2,"send"); s.log.append(("put",ch,repr(v),["Ok","Err"][c])); return Enum(["Ok","Err"][c],[None])
    def fun(s,x):
        c=s.choose(2,"fun"); s.log.append(("call_fun",x,["returns","panics"][c]))
        if c: raise Unwind()
        return ("res",x)
    def drop(s,v):
        if isinstance(v,Struct):
            ends=[x for x in v.f.values() if isinstance(x,str) and (x.endswith(".tx") or x.endswith(".rx"))]
            if ends: s.log.append(("drop_channel_ends",ends))
    def newchan(s):
        s.nch=getattr(s,"nch",-1)+1; return s.nch
    def iter_next(s,it):
        c=s.choose(2,"iter"); s.log.append(("iter_next",["Some","None"][c])); return Enum("Some",[("task",len(s.log))]) if c==0 else Enum("None")
def explore(blocks,mkenv,maxgets=3):
    paths=[]; stack=[[]]
    while stack:
        dec=stack.pop(); log=[]; o=Oracle(dec,log)
        it=Interp(blocks,mkenv(),o,log)
        try:
            if sum(1 for e in log if e[0]=="get")>maxgets: pass
            it.run()
        except RuntimeError as ex: log.append(("LIMIT",str(ex)))
        paths.append(log)
        # schedule alternatives
        for i in range(len(dec),len(o.d)):
            for alt in range(1,o.more[i]): stack.append(o.d[:i]+[alt])
        if len(paths)>200: break
    return paths

pm=parse_blocks(fn_text(r"^fn parallel_map\(_1: fn"))
for T_ in (1,3):
    paths=explore(pm,lambda:{"_1":"fun","_2":"ITER","_3":T_})
    print("parallel_map ctor threads=",T_,"paths",len(paths))
    for p in paths: print("   ",[e for e in p if e[0]!="iter_next" or True])
dr=parse_blocks(fn_text(r"^fn parallel_map::<impl at src/parallel_map.rs:\d+:\d+: \d+:\d+>::drop\("))
def mkd():
    comm=[Struct({0:f"tasks{w}.tx",1:f"results{w}.rx"}) for w in range(2)]
    return {"_1":Struct({0:0,1:"ITER",2:comm,3:[("handle",0),("handle",1)]})}
paths=explore(dr,mkd); print("drop: paths",len(paths))
for p in paths[:4]: print("   ",p)
