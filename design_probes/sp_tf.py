import sys, types, time
sys.path.insert(0,"/tmp/probe/deps"); sys.path.insert(0,"/repo/src")
import z3
import numpy as rnp
# ---- minimal symtf
class T:   # tensor / ndarray of symbolic elements: (dtype str, shape, elems list of z3 BV or python bytes)
    def __init__(s,dtype,shape,elems): s.dtype=dtype; s.shape=tuple(shape); s.elems=elems
    def numpy(s): return s
    def astype(s,dtype=None): raise NotImplementedError
    def __iter__(s): return iter(s.elems)
    def __len__(s): return len(s.elems)
tf=types.ModuleType("tensorflow")
tf.string="string"; tf.int64="int64"; tf.float32="float32"; tf.float64="float64"; tf.float16="float16"
def constant(v):
    if isinstance(v,list) and len(v)==1 and isinstance(v[0],T): return T(v[0].dtype,(1,)+v[0].shape,v[0].elems)
    if isinstance(v,int): return T("int32",(),[v])
    raise NotImplementedError(("constant",v))
tf.constant=constant
tf.reshape=lambda t,shape: T(t.dtype,(len(t.elems),),t.elems) if shape==-1 else (_ for _ in ()).throw(NotImplementedError)
class Feature:
    def __init__(s,bytes_list=None,float_list=None,int64_list=None): s.kind,s.v=[(k,v) for k,v in (("bytes",bytes_list),("float",float_list),("int64",int64_list)) if v is not None][0]
def widen_int(bv,src):
    w=rnp.dtype(src).itemsize*8
    return z3.SignExt(64-w,bv) if rnp.dtype(src).kind=="i" else z3.ZeroExt(64-w,bv)
class Int64List:
    def __init__(s,value):
        if rnp.dtype(value.dtype).kind not in "iub": raise TypeError("not an integer")   # model of protobuf behaviour: to be calibrated
        s.vals=[widen_int(e,value.dtype) for e in value.elems]
class FloatList:
    def __init__(s,value):
        k=rnp.dtype(value.dtype)
        fsort={2:z3.Float16(),4:z3.Float32(),8:z3.Float64()}[k.itemsize]
        s.vals=[z3.fpToIEEEBV(z3.fpToFP(z3.RNE(),z3.fpBVToFP(e,fsort),z3.Float32())) if k.itemsize!=4 else e for e in value.elems]
class BytesList:
    def __init__(s,value): s.vals=list(value)
tf.train=types.SimpleNamespace(Feature=Feature,Int64List=Int64List,FloatList=FloatList,BytesList=BytesList,
    Features=lambda feature: feature, Example=lambda features: types.SimpleNamespace(SerializeToString=lambda: features))
class FixedLenFeature:
    def __init__(s,shape,dtype): s.shape=tuple(shape); s.dtype=dtype
def parse_single_example(rec,feats):
    out={}
    for name,f in feats.items():
        ft=rec[name]
        want={"string":"bytes","int64":"int64","float32":"float"}.get(f.dtype)
        if want is None: raise TypeError(f"FixedLenFeature dtype {f.dtype} unsupported")
        if ft.kind!=want: raise ValueError("feature kind mismatch")
        out[name]=T(f.dtype,f.shape,ft.v.vals)
    return out
tf.io=types.SimpleNamespace(FixedLenFeature=FixedLenFeature,parse_single_example=parse_single_example,serialize_tensor=None,parse_tensor=None)
sys.modules["tensorflow"]=tf
npm=types.ModuleType("numpy_shim")
npm.array=lambda v: v if isinstance(v,T) else (_ for _ in ()).throw(NotImplementedError(("np.array",v)))
npm.float16="float16"
from sedpack.io.metadata import Attribute
import sedpack.io.tfrec.tfdata as TD
TD.np=npm; TD.tf=tf
def cell(decl,indt,shape=(2,)):
    n=1
    for d in shape: n*=d
    w=rnp.dtype(indt).itemsize*8
    vals=[z3.BitVec(f"v{i}",w) for i in range(n)]
    attr=Attribute(name="a",dtype=decl,shape=shape)
    try: rec=TD.to_tfrecord([attr],{"a":T(indt,shape,vals)})
    except (ValueError,TypeError) as e: return f"write rejected: {type(e).__name__} {str(e)[:40]}"
    try: out=TD.get_from_tfrecord([attr])(rec)["a"]
    except (ValueError,TypeError) as e: return f"ACCEPTED BUT UNREADABLE: {type(e).__name__} {str(e)[:50]}"
    s=z3.Solver()
    if rnp.dtype(decl).kind in "iu": exp=[widen_int(v,indt) for v in vals]
    else: exp=vals
    if out.elems[0].size()!=exp[0].size(): return f"width changed {exp[0].size()}->{out.elems[0].size()}"
    s.add(z3.Or([a!=b for a,b in zip(out.elems,exp)]))
    r=s.check(); return "HOLDS" if r==z3.unsat else f"CEX {s.model()}"
for decl,indt in [("int8","int8"),("uint8","uint8"),("int32","int32"),("int64","int64"),("int16","int16"),("float32","float32"),("float64","float64"),("int32","float32"),("float32","float64")]:
    print(decl,"<-",indt,":",cell(decl,indt))
