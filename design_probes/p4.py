import sys, tempfile, shutil, traceback, json, os
from pathlib import Path
import numpy as np
from sedpack.io import Dataset, Metadata, DatasetStructure, Attribute
def mk(tmp, ft, comp, attrs, eps=4):
    ds = DatasetStructure(saved_data_description=attrs, shard_file_type=ft, compression=comp, examples_per_shard=eps)
    return Dataset.create(path=tmp, metadata=Metadata(description="x"), dataset_structure=ds)
def rt(ft, comp, attrs, examples, reader="sync"):
    tmp = Path(tempfile.mkdtemp())
    try:
        d = mk(tmp, ft, comp, attrs)
        with d.filler() as f:
            for e in examples: f.write_example(e, split="train")
        if reader=="sync": out = list(d.as_numpy_iterator(split="train", repeat=False, shuffle=0))
        elif reader=="rust": out = list(d.as_numpy_iterator_rust(split="train", repeat=False, shuffle=0))
        return out
    except BaseException as e:
        return f"ERR {type(e).__name__}: {str(e)[:150]}"
    finally: shutil.rmtree(tmp, ignore_errors=True)
B=Attribute(name="b", dtype="bytes", shape=())
print("npz bytes NUL:", rt("npz","",[B],[{"b": b"ab\x00"},{"b": b"abcd\x00\x00"}, {"b": b""}]))
print("fb bytes NUL:", rt("fb","",[B],[{"b": b"ab\x00"},{"b": b""}]))
print("tfrec bytes NUL:", rt("tfrec","",[B],[{"b": b"ab\x00"},{"b": b""}]))
F64=Attribute(name="x", dtype="float64", shape=(2,))
v=np.array([1+2**-40, np.pi])
for ft in ["fb","npz","tfrec"]:
    o=rt(ft,"",[F64],[{"x": v}])
    print(ft,"float64:", o if isinstance(o,str) else (o[0]["x"].dtype, (o[0]["x"]==v).all()))
F16=Attribute(name="x", dtype="float16", shape=(2,))
I16=Attribute(name="x", dtype="int16", shape=(2,))
U16=Attribute(name="x", dtype="uint16", shape=(2,))
print("tfrec int16:", rt("tfrec","",[I16],[{"x": np.array([1,2],np.int16)}]))
print("tfrec uint64 big:", rt("tfrec","",[Attribute(name="x", dtype="uint64", shape=(1,))],[{"x": np.array([2**63+5],np.uint64)}]))
print("tfrec uint8 attr w/ float vals:", rt("tfrec","",[Attribute(name="x", dtype="uint8", shape=(1,))],[{"x": np.array([1.5])}]))
print("tfrec int32 attr w/ int64 big:", rt("tfrec","",[Attribute(name="x", dtype="int32", shape=(1,))],[{"x": np.array([2**40])}]))
print("npz int8 attr w/ float:", rt("npz","",[Attribute(name="x", dtype="int8", shape=(1,))],[{"x": np.array([1.5])}]))
print("fb F-order:", rt("fb","",[Attribute(name="x", dtype="int32", shape=(2,3))],[{"x": np.asfortranarray(np.arange(6,dtype=np.int32).reshape(2,3))}]))
print("fb big-endian:", rt("fb","",[Attribute(name="x", dtype="int32", shape=(2,))],[{"x": np.array([1,2],dtype=">i4")}]))
print("fb str:", rt("fb","",[Attribute(name="x", dtype="str", shape=())],[{"x": "héllo"}]))
print("npz str:", rt("npz","",[Attribute(name="x", dtype="str", shape=())],[{"x": "héllo"},{"x":"a"}]))
print("tfrec str:", rt("tfrec","",[Attribute(name="x", dtype="str", shape=())],[{"x": "héllo"}]))
print("fb rust f16:", rt("fb","LZ4",[F16],[{"x": np.array([1.5,-0.0],np.float16)}], reader="rust"))
print("fb scalar rank0 int:", rt("fb","",[Attribute(name="x", dtype="int64", shape=())],[{"x": 5},{"x": np.int64(7)}]))
print("fb uint8 python int:", rt("fb","",[Attribute(name="x", dtype="uint8", shape=())],[{"x": 5}]))
