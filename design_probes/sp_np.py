import sys, types, time, z3, itertools
sys.modules["tensorflow"]=types.ModuleType("tensorflow"); sys.path.insert(0,"/repo/src")
import numpy as rnp
from sedpack.io.metadata import Attribute
import sedpack.io.shard.shard_writer_flatbuffer as W
import sedpack.io.flatbuffer.iterate as R
class Inconclusive(Exception): pass
class SymDType:
    def __init__(s,dt): s.dt=rnp.dtype(dt)
    byteorder=property(lambda s:s.dt.byteorder); itemsize=property(lambda s:s.dt.itemsize)
    def newbyteorder(s,o): return SymDType(s.dt.newbyteorder(o))
    def __eq__(s,o): return s.dt==(o.dt if isinstance(o,SymDType) else o)
    def __format__(s,f): return str(s.dt)
def is_le(dt): return dt.byteorder in("<","|") or (dt.byteorder=="=" and sys.byteorder=="little")
class SymArr:
    """elements: list (C logical order) of lists of 8-bit BVs = memory bytes of each element"""
    def __init__(s,dt,shape,elems): s.dtype=SymDType(dt) if not isinstance(dt,SymDType) else dt; s.shape=tuple(shape); s.elems=elems
    def value(s,i):  # BV of width 8*itemsize, numeric value bits
        b=s.elems[i]; b=b if not is_le(s.dtype.dt) else b[::-1]   # most significant first
        return z3.Concat(*b) if len(b)>1 else b[0]
    def flatten(s): return SymArr(s.dtype,(len(s.elems),),list(s.elems))
    def byteswap(s,inplace=False): assert not inplace; return SymArr(s.dtype,s.shape,[b[::-1] for b in s.elems])
    def tobytes(s,order="C"):
        if order!="C": raise Inconclusive("tobytes order")   # F would need layout; model: reversed index order
        return SymBytes([x for b in s.elems for x in b])
    def reshape(s,shape):
        n=1
        for d in shape: n*=d
        if n!=len(s.elems): raise ValueError("cannot reshape")
        return SymArr(s.dtype,shape,s.elems)
class SymBytes:
    def __init__(s,b): s.b=b
    def __len__(s): return len(s.b)
def widen(bv,src,dst):
    if src==dst: return bv
    if src.kind in "iu" and dst.kind in "iu":
        ext=dst.itemsize*8-src.itemsize*8
        return z3.SignExt(ext,bv) if src.kind=="i" else z3.ZeroExt(ext,bv)
    return z3.BitVec("lossy_%d"%id(bv),dst.itemsize*8)     # floats: TODO fpToFP; anything else unconstrained
class NP(types.ModuleType):
    ndarray=SymArr
    def copy(s,a): return SymArr(a.dtype,a.shape,list(a.elems))
    def can_cast(s,a,to,casting="safe"): return bool(rnp.can_cast(a.dtype.dt,rnp.dtype(to),casting=casting))
    def array(s,a,dtype=None):
        dst=rnp.dtype(dtype); src=a.dtype.dt
        out=[]
        for i in range(len(a.elems)):
            v=widen(a.value(i),src.newbyteorder("=") if src.byteorder!="|" else src,dst.newbyteorder("=") if dst.byteorder!="|" else dst)
            w=dst.itemsize; by=[z3.Extract(8*(w-k)-1,8*(w-k-1),v) for k in range(w)]  # MSB first
            out.append(by if not is_le(dst) else by[::-1])
        return SymArr(dst,a.shape,out)
    def dtype(s,x): return SymDType(x)
    def frombuffer(s,buffer,dtype):
        w=dtype.itemsize; b=buffer.b
        if len(b)%w: raise ValueError("buffer size")
        return SymArr(dtype,(len(b)//w,),[b[i:i+w] for i in range(0,len(b),w)])
np_shim=NP("np")
class CapBuilder:
    def __init__(s): s.Bytes=types.SimpleNamespace(); s.head=1000; s.cap=None
        
    def StartVector(s,elemSize,numElems,alignment): s.sv=(elemSize,numElems,alignment)
    def Head(s): return s.head
    def EndVector(s): return 1
class BytesStore:
    def __init__(s,b): s.b=b
    def __setitem__(s,sl,val): s.b.cap=(sl.start,sl.stop,val)
W.np=np_shim; R.np=np_shim
def cell(decl,indt,shape,order_perm=None):
    n=1
    for d in shape: n*=d
    src=rnp.dtype(indt); w=src.itemsize
    vals=[z3.BitVec(f"v{i}",8*w) for i in range(n)]
    mem=[]
    for v in vals:
        by=[z3.Extract(8*(w-k)-1,8*(w-k-1),v) for k in range(w)]; mem.append(by if not is_le(src) else by[::-1])
    a=SymArr(src,shape,mem)
    attr=Attribute(name="a",dtype=decl,shape=shape)
    b=CapBuilder(); b.Bytes=BytesStore(b)
    try: W.ShardWriterFlatBuffer.save_numpy_vector_as_bytearray(builder=b,attribute=attr,value=a)
    except ValueError as ex: return "rejected"
    start,stop,payload=b.cap
    out=R.IterateShardFlatBuffer.decode_array(np_bytes=payload,attribute=attr)
    s=z3.Solver(); dst=rnp.dtype(decl)
    exp=[widen(v,src.newbyteorder("="),dst.newbyteorder("=")) for v in vals]
    s.add(z3.Or([out.value(i)!=exp[i] for i in range(n)]))
    r=s.check(); return ("HOLDS" if r==z3.unsat else f"CEX {s.model()}", out.shape, str(out.dtype.dt), b.sv, stop-start)
t=time.time()
for decl,indt in [("int32","<i4"),("int32",">i4"),("int64","<i2"),("uint16","uint8"),("float32","<f4"),("float16",">f2"),("int8","int64"),(">i4","<i4"),("uint64",">u8")]:
    print(decl,indt,cell(decl,indt,(2,3)))
print(round(time.time()-t,2),"s")
