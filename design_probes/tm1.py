import sys, time, z3
sys.path.insert(0,"/repo/src")
import importlib.util
spec=importlib.util.spec_from_file_location("lazy_pool","/repo/src/sedpack/io/itertools/lazy_pool.py"); lp=importlib.util.module_from_spec(spec); spec.loader.exec_module(lp)
from symx import *
class SymVal:
    """value received from a queue: sentinel-ness is symbolic"""
    def __init__(self,e,name):
        self.e=e; self.is_sent=z3.Bool(f"sent_{name}"); self.name=name
    @property
    def __class__(self):
        return lp.StopSentinel if self.e.branch(self.is_sent) else int
class RecQ:
    def __init__(self,e,name,log): self.e=e; self.name=name; self.log=log; self.k=0
    def get(self):
        v=SymVal(self.e,f"{self.name}{self.k}"); self.k+=1; self.log.append(("get",self.name,v.name)); 
        if len(self.log)>12: raise Abort()
        return v
    def put(self,v): self.log.append(("put",self.name,getattr(v,"name",v)))
paths=[]
def worker(e):
    log=[]
    c=lp.Collector.__new__(lp.Collector)
    c._to_process=RecQ(e,"qp",log); c._results=RecQ(e,"qr",log); c.func=lambda x:("f",x.name)
    try: lp.Collector.run(c); log.append("END")
    except Abort: log.append("UNROLL-LIMIT"); 
    paths.append(log)
print(explore(worker)); 
for p in paths: print(p)
