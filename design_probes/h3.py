import os, posixpath
from pathlib import Path, PurePosixPath
from sedpack.io.file_info import FileInfo

def escapes(s: str) -> bool:
    """
    pre: len(s) <= 5
    post: _
    """
    try:
        p = FileInfo.no_directory_traversal(PurePosixPath(s))
    except ValueError:
        return True
    full = posixpath.normpath(str(PurePosixPath("/r/d") / p))
    return full == "/r/d" or full.startswith("/r/d/")
