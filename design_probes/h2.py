import tempfile, shutil, atexit, time, os
from pathlib import Path
import numpy as np
from sedpack.io import Dataset, Metadata, DatasetStructure, Attribute
from sedpack.io.dataset_filler import DatasetFiller, _DatasetFillerContext
N=[0]; T0=time.time()
atexit.register(lambda: open("/tmp/probe/h2.cnt","a").write(f"{os.getpid()} paths={N[0]} wall={time.time()-T0:.1f}\n"))
def session(e: int, n: int) -> bool:
    """
    pre: 1 <= e
    pre: 0 <= n <= 5
    post: _
    """
    N[0]+=1
    tmp = Path(tempfile.mkdtemp(prefix="xh_"))
    try:
        ds = DatasetStructure(saved_data_description=[Attribute(name="a", dtype="int32", shape=(2,))],
            shard_file_type="fb", compression="", examples_per_shard=4, hash_checksum_algorithms=("md5",))
        d = Dataset.create(path=tmp, metadata=Metadata(description="x"), dataset_structure=ds)
        filler = DatasetFiller(d)
        filler._dataset_filler_context._examples_per_shard = e
        f = filler.__enter__()
        for i in range(n):
            f.write_example({"a": np.array([i,i],np.int32)}, split="train")
        filler.__exit__(None, None, None)
        shards = list(d.shard_info_iterator("train")) if n else []
        counts = [s.number_of_examples for s in shards]
        ok = all(1 <= c and c <= e for c in counts) and all(c == e for c in counts[:-1]) and sum(counts) == n
        return ok
    finally:
        shutil.rmtree(tmp, ignore_errors=True)
