import sys, tempfile, shutil, traceback, json, os, threading, faulthandler
from pathlib import Path
import numpy as np
from sedpack.io import Dataset, Metadata, DatasetStructure, Attribute
def mk(tmp, ft="fb", comp="", eps=2, attrs=None):
    ds = DatasetStructure(saved_data_description=attrs or [Attribute(name="a", dtype="int32", shape=(2,))],
        shard_file_type=ft, compression=comp, examples_per_shard=eps)
    return Dataset.create(path=tmp, metadata=Metadata(description="x"), dataset_structure=ds)
which = sys.argv[1]
tmp = Path(tempfile.mkdtemp()); d = mk(tmp, ft=sys.argv[2] if len(sys.argv)>2 else "fb")
with d.filler() as f:
    for i in range(8): f.write_example({"a": np.array([i,i],np.int32)}, split="train")
shards = list(d.shard_info_iterator("train"))
victim = tmp / shards[1].file_infos[0].file_path
mode = sys.argv[3] if len(sys.argv)>3 else "del"
if mode=="del": victim.unlink()
elif mode=="empty": victim.write_bytes(b"")
else: victim.write_bytes(b"garbage garbage garbage garbage garbage")
faulthandler.dump_traceback_later(20, exit=True)
try:
    if which=="sync": it = d.as_numpy_iterator(split="train", repeat=False, shuffle=0)
    elif which=="conc0": it = d.as_numpy_iterator_concurrent(split="train", repeat=False, shuffle=0, file_parallelism=2)
    elif which=="concS": it = d.as_numpy_iterator_concurrent(split="train", repeat=False, shuffle=3, file_parallelism=2)
    elif which=="rust": it = d.as_numpy_iterator_rust(split="train", repeat=False, shuffle=0, file_parallelism=2)
    elif which=="tf": it = d.as_tfdataset("train", repeat=False, shuffle=0, batch_size=0).as_numpy_iterator()
    r = [int(e["a"][0]) for e in it]
    print("ENDED NORMALLY", which, r)
except BaseException as e:
    print("RAISED", which, type(e).__name__, str(e)[:100])
os._exit(0)
