import z3, time, sys
T=int(sys.argv[1]); NMAX=int(sys.argv[2]); K=int(sys.argv[3]); FAIL=len(sys.argv)>4 and sys.argv[4]=="fail"
QCAP=3*T+4
SENT=-1
# state vars
def mkstate(k):
    s={}
    def I(n): s[n]=z3.Int(f"{n}@{k}")
    for n in ["cpc","it","i","active","cur","emitted","qp_h","qp_t","qr_h","qr_t"]: I(n)
    for w in range(T):
        I(f"wpc{w}"); I(f"wx{w}")
    for j in range(QCAP): I(f"qp{j}"); I(f"qr{j}")
    return s
n=z3.Int("n"); failidx=z3.Int("failidx")
def qget(s,q,idx):
    e=s[f"{q}{QCAP-1}"]
    for j in range(QCAP-2,-1,-1): e=z3.If(idx==j,s[f"{q}{j}"],e)
    return e
def qput(s,ns,q,val):
    t=s[f"{q}_t"]
    for j in range(QCAP): ns[f"{q}{j}"]=z3.If(t==j,val,s[f"{q}{j}"])
    ns[f"{q}_t"]=t+1
def nxt(s):  # next(iterator_with_stops)
    return z3.If(s["it"]<n,s["it"],SENT)
# transitions: list of (thread, guard, update)
trans=[]
def tr(th): 
    def deco(f): trans.append((th,f)); return f
    return deco
# consumer pcs: 0 prefill,1 loop-get,2 put-next,3 yield,4 finish(put sentinels, counter in i),5 done
@tr("c")
def c_prefill(s):
    g=s["cpc"]==0; ns=dict(s); qput(s,ns,"qp",nxt(s)); ns["it"]=s["it"]+1
    brk=s["i"]>2*T
    ns["cpc"]=z3.If(brk,1,0); ns["i"]=z3.If(brk,s["i"],s["i"]+1); return g,ns
@tr("c")
def c_get(s):
    g=z3.And(s["cpc"]==1,s["active"]>0,s["qr_h"]<s["qr_t"]); ns=dict(s)
    v=qget(s,"qr",s["qr_h"]); ns["qr_h"]=s["qr_h"]+1
    issent=v==SENT
    ns["active"]=z3.If(issent,s["active"]-1,s["active"]); ns["cur"]=v
    ns["cpc"]=z3.If(issent,z3.If(s["active"]-1>0,1,4),2)
    ns["i"]=z3.If(z3.And(issent,s["active"]-1<=0),0,s["i"])
    return g,ns
@tr("c")
def c_put(s):
    g=s["cpc"]==2; ns=dict(s); qput(s,ns,"qp",nxt(s)); ns["it"]=s["it"]+1; ns["cpc"]=3; return g,ns
@tr("c")
def c_yield(s):
    g=s["cpc"]==3; ns=dict(s); ns["emitted"]=s["emitted"]+1; ns["cpc"]=1; return g,ns
@tr("c")
def c_fin(s):
    g=s["cpc"]==4; ns=dict(s); qput(s,ns,"qp",z3.IntVal(SENT)); ns["i"]=s["i"]+1
    ns["cpc"]=z3.If(s["i"]+1>=T,5,4); return g,ns
for w in range(T):
    def mk(w):
        @tr(f"w{w}")
        def w_get(s):
            g=z3.And(s[f"wpc{w}"]==0,s["qp_h"]<s["qp_t"]); ns=dict(s)
            v=qget(s,"qp",s["qp_h"]); ns["qp_h"]=s["qp_h"]+1; ns[f"wx{w}"]=v
            ns[f"wpc{w}"]=z3.If(v==SENT,1,2); return g,ns
        @tr(f"w{w}")
        def w_putsent(s):
            g=s[f"wpc{w}"]==1; ns=dict(s); qput(s,ns,"qr",z3.IntVal(SENT)); ns[f"wpc{w}"]=9; return g,ns
        @tr(f"w{w}")
        def w_putres(s):
            g=s[f"wpc{w}"]==2; ns=dict(s)
            fails=z3.And(FAIL,s[f"wx{w}"]==failidx)
            qput(s,ns,"qr",s[f"wx{w}"])
            for kk in list(ns):
                if kk.startswith("qr"): ns[kk]=z3.If(fails,s[kk],ns[kk])
            ns[f"wpc{w}"]=z3.If(fails,8,0); return g,ns
    mk(w)
threads=["c"]+[f"w{w}" for w in range(T)]
sol=z3.Solver()
sol.add(n>=0,n<=NMAX,failidx>=0,failidx<n)
S=[mkstate(k) for k in range(K+1)]
s0=S[0]
for nme,v in s0.items():
    if nme in("active",): sol.add(v==T)
    elif nme.startswith("qp") and nme[2:].isdigit() or nme.startswith("qr") and nme[2:].isdigit(): pass
    else: sol.add(v==0)
sched=[z3.Int(f"sch@{k}") for k in range(K)]
def enabled_any(s):
    return z3.Or([f(s)[0] for _,f in trans])
def final(s):
    return z3.And(s["cpc"]==5,*[s[f"wpc{w}"]==9 for w in range(T)])
stuck=[]
for k in range(K):
    s=S[k]; ns=S[k+1]
    opts=[]
    for ti,(th,f) in enumerate(trans):
        g,upd=f(s)
        opts.append(z3.And(sched[k]==ti,g,*[ns[v]==upd[v] for v in s]))
    # stutter when nothing enabled
    opts.append(z3.And(sched[k]==-1,z3.Not(enabled_any(s)),*[ns[v]==s[v] for v in s]))
    sol.add(z3.Or(opts))
    stuck.append(z3.And(z3.Not(enabled_any(s)),z3.Not(final(s))))
t=time.time()
sol.push(); sol.add(z3.Or(stuck)); r=sol.check(); print("deadlock reachable within",K,":",r,time.time()-t)
if r==z3.sat:
    m=sol.model(); print("n=",m[n],"fail=",m[failidx],[m[x] for x in sched][:40])
sol.pop()
t=time.time()
sol.push(); sol.add(z3.Not(enabled_any(S[K])), final(S[K]), S[K]["emitted"]!=n); r=sol.check(); print("final with wrong count:",r,time.time()-t); sol.pop()
t=time.time()
sol.push(); sol.add(enabled_any(S[K])); r=sol.check(); print("still running at K (bound too small?):",r,time.time()-t); sol.pop()
