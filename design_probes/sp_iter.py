import sys, types, time, z3, collections
sys.modules["tensorflow"]=types.ModuleType("tensorflow"); sys.path.insert(0,"/repo/src")
from symx import *
import sedpack.io.itertools.itertools as IT
NMAX=int(sys.argv[1])
def harness(e):
    n=e.fresh_int("n",0,NMAX); b=e.fresh_int("b",1,NMAX+1)
    IT.initial_random_state=lambda seed=None: e.fresh_int("r",0,None)
    IT.next_random_state=lambda r: e.fresh_int("r",0,None)
    IT.random=types.SimpleNamespace(shuffle=lambda buf: None, randint=None)
    pulled=[0]
    def src():
        for i in range(n): pulled[0]+=1; yield i
    out=[]
    for x in IT.shuffle_buffer(src(), b):
        out.append(x)
        # laziness monitor: pulled - yielded <= b+1
        e.prove(pulled[0]-len(out) <= b.z, "readahead")
    assert sorted(out)==list(range(int(n))), (out,)
def rr(e):
    S=e.fresh_int("S",0,3); b=e.fresh_int("b",1,4)
    IT.initial_random_state=lambda seed=None: e.fresh_int("r",0,None)
    IT.next_random_state=lambda r: e.fresh_int("r",0,None)
    lens=[e.fresh_int(f"l{i}",0,2) for i in range(int(S))]
    opened=[0]
    def outer():
        for i,l in enumerate(lens):
            opened[0]+=1
            yield [(i,j) for j in range(l)]
    out=list(IT.round_robin(outer(), b))
    exp=[(i,j) for i,l in enumerate(lens) for j in range(int(l))]
    assert sorted(out)==sorted(exp),(out,exp)
t=time.time(); print("shuffle_buffer",explore(harness),round(time.time()-t,2))
t=time.time(); print("round_robin",explore(rr),round(time.time()-t,2))
