import sys, types, time, os, io, builtins, shutil, tempfile, uuid
sys.modules["tensorflow"]=types.ModuleType("tensorflow"); sys.path.insert(0,"/repo/src")
from pathlib import Path
import numpy as np
from sedpack.io import Dataset, Metadata, DatasetStructure, Attribute
from sedpack.io.dataset_filler import DatasetFiller
import sedpack.io.utils as U
class Crash(BaseException): pass
class FSX:
    def __init__(s,root): s.root=str(root); s.n=0; s.crash_at=None; s.dead=False; s.torn=set(); s.openw={}; s.log=[]
    def effect(s,kind,path):
        if s.dead: return False
        if not str(path).startswith(s.root): return True
        if s.crash_at is not None and s.n==s.crash_at:
            s.dead=True; s.torn|=set(s.openw.values()); s.log.append(("CRASH before",kind,os.path.relpath(str(path),s.root))); raise Crash()
        s.n+=1; s.log.append((kind,os.path.relpath(str(path),s.root))); return True
fsx=None
_open=builtins.open; _ioopen=io.open; _replace=os.replace; _mkdir=os.mkdir
class WFile:
    def __init__(s,f,path): s.f=f; s.path=path
    def write(s,data):
        if fsx.dead: return len(data)
        try: fsx.effect("write",s.path)
        except Crash:
            s.f.write(data[:len(data)//2]); s.f.flush(); raise     # torn prefix lands on disk
        return s.f.write(data)
    def __enter__(s): return s
    def __exit__(s,*a): s.close(); return False
    def close(s):
        if not s.f.closed:
            s.f.close()
            if fsx.dead: return
            fsx.openw.pop(id(s),None)
            try: fsx.effect("close",s.path)
            except Crash: raise
    def __getattr__(s,k): return getattr(s.f,k)
def xopen(path,mode="r",*a,**kw):
    if fsx is not None and isinstance(path,(str,Path)) and str(path).startswith(fsx.root) and any(c in mode for c in "wax+"):
        if fsx.dead: return WFile(_open(os.devnull,mode.replace("x","w"),*a,**kw),path)
        fsx.effect("open-w",path); f=_open(path,mode,*a,**kw); w=WFile(f,str(path)); fsx.openw[id(w)]=str(path); return w
    return _open(path,mode,*a,**kw)
def xreplace(src,dst,*a,**kw):
    if fsx is not None and str(dst).startswith(fsx.root):
        if not fsx.effect("replace",dst): return
    return _replace(src,dst,*a,**kw)
def xmkdir(path,*a,**kw):
    if fsx is not None and str(path).startswith(fsx.root):
        if not fsx.effect("mkdir",path): return
    return _mkdir(path,*a,**kw)
builtins.open=xopen; io.open=xopen; os.replace=xreplace; os.mkdir=xmkdir
def mk(tmp):
    ds=DatasetStructure(saved_data_description=[Attribute(name="a",dtype="int32",shape=(2,))],shard_file_type="fb",compression="",examples_per_shard=2,hash_checksum_algorithms=("md5",))
    d=Dataset.create(path=tmp,metadata=Metadata(),dataset_structure=ds)
    with d.filler() as f:
        for i in range(3): f.write_example({"a":np.array([i,i],np.int32)},split="train")
    return d
def session2(d,sub):
    filler=DatasetFiller(d,relative_path_from_split=Path(sub)) if sub else d.filler()
    f=filler.__enter__()
    for i in range(10,13): f.write_example({"a":np.array([i,i],np.int32)},split="train")
    filler.__exit__(None,None,None)
def recover(tmp):
    d=Dataset(tmp)
    vals=[int(e["a"][0]) for e in d.as_numpy_iterator(split="train",repeat=False,shuffle=0)]
    # reachable shard files must match recorded digests
    for s in d.shard_info_iterator("train"):
        for fi in s.file_infos:
            assert str(tmp/fi.file_path) not in fsx.torn, ("torn shard reachable",fi.file_path)
            assert U.hash_checksums(tmp/fi.file_path,("md5",))==fi.hash_checksums, ("digest",fi.file_path)
    return vals
for sub in (None,"a"):
    # dry run to count effects
    tmp=Path(tempfile.mkdtemp(prefix="cr_")); fsx=None; d=mk(tmp); fsx=FSX(tmp); session2(d,sub); total=fsx.n; log=fsx.log; fsx=None; shutil.rmtree(tmp)
    print("sub",sub,"effects in crashing session:",total); print("  ",log)
    bad=0
    for k in range(total+1):
        tmp=Path(tempfile.mkdtemp(prefix="cr_")); fsx=None; d=mk(tmp); fsx=FSX(tmp); fsx.crash_at=k
        try: session2(d,sub)
        except Crash: pass
        try:
            fsx_keep=fsx; vals=recover(tmp)
            ok=set([0,1,2])<=set(vals) and set(vals)<=set([0,1,2,10,11,12]) and len(vals)==len(set(vals))
            if not ok: bad+=1; print("  k",k,"BAD",vals)
        except BaseException as ex:
            bad+=1; print("  k",k,"RECOVERY ERROR",type(ex).__name__,str(ex)[:100])
        fsx=None; shutil.rmtree(tmp)
    print("  crash points",total+1,"bad",bad)
