"""POC: thread-modular summaries of real lazy_pool code + SMT partial-order composition."""
import sys, time, z3, types, queue as realqueue, itertools
import importlib.util
from symx import *
T=int(sys.argv[1]); NMAX=int(sys.argv[2]); FAIL=len(sys.argv)>3 and sys.argv[3]=="fail"; EARLY=len(sys.argv)>3 and sys.argv[3]=="early"
spec=importlib.util.spec_from_file_location("lazy_pool","/repo/src/sedpack/io/itertools/lazy_pool.py"); lp=importlib.util.module_from_spec(spec); spec.loader.exec_module(lp)
class Boom(Exception): pass
class SymVal:
    def __init__(self,e,name,dec): self.e=e; self.name=name; self.dec=dec; self.is_sent=z3.Bool(f"sent_{name}")
    @property
    def __class__(self):
        d=self.e.branch(self.is_sent); self.dec[self.name]=d
        return lp.StopSentinel if d else int
class Item:
    def __init__(self,i): self.i=i
LIMIT=None
class RecQ:
    def __init__(self,e,name,log,dec,limit): self.e=e; self.name=name; self.log=log; self.k=0; self.dec=dec; self.limit=limit
    def get(self):
        if self.k>=self.limit: self.log.append(dict(kind="LIMIT")); raise Abort()
        v=SymVal(self.e,f"{self.name}{self.k}",self.dec); self.log.append(dict(kind="get",q=self.name,m=self.k)); self.k+=1; return v
    def put(self,v):
        if isinstance(v,SymVal): val=("fwd",v.name)
        elif type(v) is lp.StopSentinel: val=("sent",)
        elif isinstance(v,Item): val=("item",v.i)
        else: val=v
        self.log.append(dict(kind="put",q=self.name,val=val))
def extract_worker():
    paths=[]
    def worker(e):
        log=[]; dec={}
        c=lp.Collector.__new__(lp.Collector)
        c._to_process=RecQ(e,"qp",log,dec,NMAX+2); c._results=RecQ(e,"qr",log,dec,99)
        def func(x):
            if FAIL and e.branch(z3.Bool(f"fail_{x.name}")): dec["fail_"+x.name]=True; raise Boom()
            dec["fail_"+x.name]=False
            return ("res",x.name)
        c.func=func
        try: lp.Collector.run(c); log.append(dict(kind="END"))
        except Abort: pass
        except Boom: log.append(dict(kind="DIE"))
        paths.append((log,dict(dec)))
    explore(worker); return paths
def extract_consumer():
    paths=[]
    def consumer(e):
        log=[]; dec={}; created=[]
        n=e.fresh_int("n",0,NMAX); x=e.fresh_int("x",1,NMAX)
        class StubQ(RecQ):
            def __class_getitem__(cls,_): return cls
            def __init__(s): 
                nm=["qp","qr"][len(created)]; created.append(nm); RecQ.__init__(s,e,nm,log,dec,NMAX+T+1)
        lp.queue=types.SimpleNamespace(Queue=StubQ,Empty=realqueue.Empty)
        lp.Collector.start=lambda self: log.append(dict(kind="spawn"))
        class It:
            def __init__(s): s.i=0
            def __iter__(s): return s
            def __next__(s):
                if s.i<n: s.i+=1; return Item(s.i-1)
                raise StopIteration
        try:
            with lp.LazyPool(T) as pool:
                for r in pool.imap_unordered(lambda x:x, It()):
                    log.append(dict(kind="emit",src=r.name))
                    if EARLY and sum(1 for ev in log if ev["kind"]=="emit")==x: break
            log.append(dict(kind="END"))
        except Abort: pass
        paths.append((log,dict(dec),[a for a in e.solver.assertions()]))
    explore(consumer); return paths
t0=time.time()
WP=extract_worker(); CP=extract_consumer()
print("worker paths",len(WP),"consumer paths",len(CP),"extract s",round(time.time()-t0,2))
# ---------- composition
s=z3.Solver()
n=z3.Int("n#0")   # same name as in consumer path conditions
threads=["c"]+[f"w{w}" for w in range(T)]
P={"c":CP,**{f"w{w}":WP for w in range(T)}}
sel={t:z3.Int(f"sel_{t}") for t in threads}; cut={t:z3.Int(f"cut_{t}") for t in threads}
maxlen={t:max(len(p[0]) for p in P[t]) for t in threads}
ts={t:[z3.Int(f"ts_{t}_{k}") for k in range(maxlen[t])] for t in threads}
isSentQp=z3.Function("isSentQp",z3.IntSort(),z3.BoolSort()); idxQp=z3.Function("idxQp",z3.IntSort(),z3.IntSort()); tsPutQp=z3.Function("tsPutQp",z3.IntSort(),z3.IntSort())
isSentQr=z3.Function("isSentQr",z3.IntSort(),z3.BoolSort()); idxQr=z3.Function("idxQr",z3.IntSort(),z3.IntSort()); tsPutQr=z3.Function("tsPutQr",z3.IntSort(),z3.IntSort())
FailItem=z3.Function("FailItem",z3.IntSort(),z3.BoolSort())
NputQp=z3.Int("NputQp"); NgetQp=z3.Int("NgetQp"); NputQr=z3.Int("NputQr"); NgetQr=z3.Int("NgetQr")
R={f"w{w}":[z3.Int(f"R_w{w}_{m}") for m in range(NMAX+3)] for w in range(T)}   # rank of m-th get on qp
S={f"w{w}":[z3.Int(f"S_w{w}_{m}") for m in range(NMAX+3)] for w in range(T)}   # rank of m-th put on qr
spawn_ts=[z3.Int(f"spawn_ts{w}") for w in range(T)]; spawned=[z3.Bool(f"spawned{w}") for w in range(T)]
for t in threads:
    s.add(sel[t]>=0,sel[t]<len(P[t]),cut[t]>=0)
    for k in range(maxlen[t]-1): s.add(ts[t][k]<ts[t][k+1])
    s.add(ts[t][0]>=0)
blocked={}; finished={}; limit_hit=[]
wgets=[]; wputs=[]   # (executed cond, rank, ts)
cnt_putqp=[]; cnt_getqr=[]
emits=[]  # (cond, j)
for t in threads:
    bl=[]; fi=[]
    for pi,path in enumerate(P[t]):
        log,dec=path[0],path[1]; here=sel[t]==pi
        s.add(z3.Implies(here,cut[t]<=len(log)))
        if t=="c": s.add(z3.Implies(here,z3.And(*path[2])))
        gq={"qp":0,"qr":0}; pq={"qp":0,"qr":0}
        lastget=None
        for k,ev in enumerate(log):
            ex=z3.And(here,cut[t]>k)
            nxt=z3.And(here,cut[t]==k)
            if ev["kind"]=="LIMIT": limit_hit.append(nxt); s.add(z3.Implies(here,cut[t]<=k)); continue
            if ev["kind"]=="spawn":
                w_=sum(1 for e2 in log[:k] if e2["kind"]=="spawn")
                s.add(z3.Implies(ex,z3.And(spawned[w_],spawn_ts[w_]==ts[t][k]))); s.add(z3.Implies(z3.And(here,cut[t]<=k),z3.Not(spawned[w_])))
            if ev["kind"]=="get":
                q=ev["q"]; m=ev["m"]; nm=f"{q}{m}"
                if t=="c":   # consumer gets on qr, rank m
                    s.add(z3.Implies(ex,z3.And(m<NputQr,tsPutQr(m)<ts[t][k])))
                    if nm in dec: s.add(z3.Implies(ex,isSentQr(m)==dec[nm]))
                    bl.append(z3.And(nxt,NputQr<=m))           # blocked: no m-th put
                    s.add(z3.Implies(nxt,z3.BoolVal(True)))
                    lastget=("c",m)
                else:
                    r=R[t][m]; wgets.append((ex,r,ts[t][k]))
                    s.add(z3.Implies(ex,z3.And(r>=0,r<NputQp,tsPutQp(r)<ts[t][k])))
                    if nm in dec: s.add(z3.Implies(ex,isSentQp(r)==dec[nm]))
                    if "fail_"+nm in dec: s.add(z3.Implies(ex,z3.Implies(z3.Not(isSentQp(r)),FailItem(idxQp(r))==dec["fail_"+nm])))
                    bl.append(z3.And(nxt,NgetQp>=NputQp))
                    lastget=(t,m)
            if ev["kind"]=="put":
                q=ev["q"]; val=ev["val"]
                if t=="c":
                    j=pq["qp"]; pq["qp"]+=1
                    s.add(z3.Implies(ex,z3.And(tsPutQp(j)==ts[t][k],isSentQp(j)==(val[0]=="sent"),idxQp(j)==(val[1] if val[0]=="item" else -1))))
                else:
                    j=pq["qr"]; pq["qr"]+=1; sr=S[t][j]; wputs.append((ex,sr,ts[t][k]))
                    src=R[t][lastget[1]]
                    s.add(z3.Implies(ex,z3.And(sr>=0,sr<NputQr,tsPutQr(sr)==ts[t][k],isSentQr(sr)==(val[0]=="fwd"),idxQr(sr)==idxQp(src))))
            if ev["kind"]=="emit": emits.append((ex,int(ev["src"][2:])))
            if t!="c" and k==0: s.add(z3.Implies(ex,z3.And(spawned[int(t[1:])],spawn_ts[int(t[1:])]<ts[t][0])))
        # counts at cut
        for c in range(len(log)+1):
            at=z3.And(here,cut[t]==c)
            if t=="c":
                s.add(z3.Implies(at,NputQp==sum(1 for ev in log[:c] if ev["kind"]=="put" and ev["q"]=="qp")))
                s.add(z3.Implies(at,NgetQr==sum(1 for ev in log[:c] if ev["kind"]=="get")))
        term=log[-1]["kind"] in("END","DIE")
        if term: fi.append(z3.And(here,cut[t]==len(log)))
    blocked[t]=z3.Or(bl) if bl else z3.BoolVal(False); finished[t]=z3.Or(fi) if fi else z3.BoolVal(False)
# totals of worker events
s.add(NgetQp==z3.Sum([z3.If(ex,1,0) for ex,_,_ in wgets])); s.add(NputQr==z3.Sum([z3.If(ex,1,0) for ex,_,_ in wputs]))
for lst in (wgets,wputs):
    for a in range(len(lst)):
        for b in range(a+1,len(lst)):
            (ea,ra,ta),(eb,rb,tb)=lst[a],lst[b]
            s.add(z3.Implies(z3.And(ea,eb),z3.And(ra!=rb,(ra<rb)==(ta<tb))))
for ex,r,_ in wgets: s.add(z3.Implies(ex,r<NgetQp))     # ranks form a prefix
for ex,r,_ in wputs: s.add(z3.Implies(ex,r<NputQr))
for w in range(T): s.add(z3.Implies(z3.Not(spawned[w]),cut[f"w{w}"]==0))
s.add(n>=0,n<=NMAX)
if FAIL:
    j0=z3.Int("failing"); i_=z3.Int("i_"); s.add(z3.ForAll([i_],FailItem(i_)==(i_==j0)))
print("encode s",round(time.time()-t0,2))
def q(name,*extra):
    t=time.time(); s.push(); s.add(*extra); r=s.check(); print(name,r,round(time.time()-t,2))
    m=s.model() if r==z3.sat else None; s.pop(); return m
m=q("unwinding limit reachable:",z3.Or(limit_hit))
allstuck=z3.And(*[z3.Or(blocked[t],finished[t]) for t in threads])
m=q("deadlock (maximal state with a blocked thread):",allstuck,z3.Or(*[blocked[t] for t in threads]))
if m:
    print(" n=",m[n],{t:(m[sel[t]],m[cut[t]]) for t in threads})
    for t in threads:
        log=P[t][m[sel[t]].as_long()][0]; c=m[cut[t]].as_long(); print("  ",t,[(e.get("kind"),e.get("q"),e.get("val",e.get("m"))) for e in log[:c]],"| next:",log[c] if c<len(log) else None)
m=q("all finished (sanity):",z3.And(*[finished[t] for t in threads]),n==NMAX)
