import sys, types, time, z3, copy, pathlib
sys.modules["tensorflow"]=types.ModuleType("tensorflow"); sys.path.insert(0,"/repo/src")
from pathlib import Path
from symx import *
import sedpack.io.utils as U
import sedpack.io.shard_file_metadata as M
import sedpack.io.merge_shard_infos as MG
from sedpack.io.file_info import FileInfo
ROOT=Path("/vroot")
FS={}   # path str -> Doc
class Doc(str):
    pass
def mkdoc(obj):
    d=Doc(f"<doc {id(obj)}>"); d.obj=copy.deepcopy(obj); return d
# --- patches
M.ShardsList.model_dump_json=lambda self,**kw: mkdoc(self)
M.ShardsList.model_validate_json=classmethod(lambda cls,doc: copy.deepcopy(doc.obj))
class MemFile:
    def __init__(s,p): s.p=str(p)
    def __enter__(s): return s
    def __exit__(s,*a): return False
    def write(s,data): FS[s.p]=data
U.open=lambda p,mode="r",**kw: MemFile(p)
U.hash_checksums=lambda file_path,hashes: tuple(f"{h}:{id(FS[str(file_path)])}" for h in hashes)
_orig=dict(replace=Path.replace,mkdir=Path.mkdir,is_file=Path.is_file,read_text=Path.read_text,resolve=Path.resolve)
Path.replace=lambda s,t: FS.__setitem__(str(t),FS.pop(str(s)))
Path.mkdir=lambda s,**kw: None
Path.is_file=lambda s: str(s) in FS
Path.read_text=lambda s,**kw: FS[str(s)]
Path.resolve=lambda s,**kw: s
import sedpack.io.shard_file_metadata as SFM
_RealSLI=M.ShardListInfo
def SLI(**kw):
    _RealSLI.check_is_shards_list(kw["shard_list_info_file"])
    return _RealSLI.model_construct(**kw)
M.ShardListInfo=SLI
def shard(e,name,dirp):
    c=e.fresh_int("cnt_"+name,1,None)
    return M.ShardInfo.model_construct(file_infos=(FileInfo(file_path=dirp/f"{name}.fb",hash_checksums=("x",)),),number_of_examples=c,custom_metadata={}),c
def harness(e):
    FS.clear()
    # pre-state: train/ has 1 shard + child a/ with 1 shard (committed). Update: child b (new) with 1 shard, and root gets... 
    sa,ca=shard(e,"sa",Path("train/a")); la=M.ShardsList.model_construct(relative_path_self=Path("train/a/shards_list.json"),number_of_examples=ca,shard_files=[sa],children_shard_lists=[])
    ia=la.write_config(ROOT,("md5",))
    s0,c0=shard(e,"s0",Path("train")); lt=M.ShardsList.model_construct(relative_path_self=Path("train/shards_list.json"),number_of_examples=c0+ca,shard_files=[s0],children_shard_lists=[ia])
    it=lt.write_config(ROOT,("md5",))
    # session: new sub-directory b with symbolic count, via load_or_create + append like close_shard
    sb,cb=shard(e,"sb",Path("train/b"))
    lb=M.ShardsList.load_or_create(dataset_root_path=ROOT,relative_path_self=Path("train/b/shards_list.json"))
    lb.shard_files.append(sb); lb.number_of_examples+=sb.number_of_examples
    ib=lb.write_config(ROOT,("md5",))
    new=MG.merge_shard_infos(updates=[ib],dataset_root=ROOT,common=1,hashes=("md5",))
    e.prove(new.number_of_examples.z==(c0+ca+cb).z,"split total")
    assert int(new.number_of_shards)==3, new.number_of_shards
    top=FS[str(ROOT/"train/shards_list.json")].obj
    e.prove(top.number_of_examples.z==(c0+ca+cb).z,"top list total")
    kids={str(k.shard_list_info_file.file_path):k for k in top.children_shard_lists}
    e.prove(kids["train/a/shards_list.json"].number_of_examples.z==ca.z,"child a"); e.prove(kids["train/b/shards_list.json"].number_of_examples.z==cb.z,"child b")
t=time.time()
# SymInt needs z property arithmetic with SymInt==; patch __eq__ on z for prove: use .z directly
try:
    print(explore(harness),round(time.time()-t,2))
finally:
    for k,v in _orig.items(): setattr(Path,k,v)
