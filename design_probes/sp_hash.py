import sys, types, time, z3
sys.modules["tensorflow"]=types.ModuleType("tensorflow"); sys.path.insert(0,"/repo/src")
from symx import *
import sedpack.io.utils as U
MAXREADS=int(sys.argv[1])
def harness(e):
    S=e.fresh_int("S",0,None)
    st=dict(pos=S*0, reads=0)
    fed={}
    class BA:
        def __init__(s,n): s.n=n
    class MV:
        def __init__(s,ba,lo=0,hi=None): s.ba=ba; s.lo=lo; s.hi=ba.n if hi is None else hi
        def __getitem__(s,sl): 
            assert sl.start is None and sl.step is None
            return MV(s.ba,s.lo,sl.stop)
        def __len__(s): return s.hi-s.lo
    class F:
        def __enter__(s): return s
        def __exit__(s,*a): return False
        def readinto(s,mv):
            if st["reads"]>=MAXREADS: raise Abort()      # unwinding bound
            st["reads"]+=1
            remaining=S-st["pos"]
            if remaining<=0: return 0
            k=e.fresh_int("k",1,None); e.solver.add(k.z<=len(mv), k.z<=remaining.z)   # any short read allowed by the OS contract
            mv.filled=(st["pos"],k); st["pos"]=st["pos"]+k
            s.last=(st["pos"]-k,k)
            return k
    f=F()
    class H:
        def __init__(s,name): s.name=name; s.chunks=[]
        def update(s,chunk): s.chunks.append((f.last[0],chunk.hi-chunk.lo if isinstance(chunk.hi,int) else chunk.hi))
        def hexdigest(s): return s
    hs=[]
    U.open=lambda p,mode,buffering=-1: f
    U.memoryview=lambda ba: MV(ba); U.bytearray=lambda n: BA(n)
    U._get_hash_function=lambda name: (hs.append(H(name)) or hs[-1])
    out=U.hash_checksums(file_path="x",hashes=("sha256","md5"))
    assert [h.name for h in out]==["sha256","md5"]
    for h in hs:
        off=0*S
        for (start,ln) in h.chunks:
            e.prove(start.z==off.z,"contiguous"); off=off+ln
        e.prove(off.z==S.z,"covers whole file")
t=time.time(); print(explore(harness),round(time.time()-t,2))
