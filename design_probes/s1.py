import tempfile, shutil, time, sys
from pathlib import Path
import numpy as np
from sedpack.io import Dataset, Metadata, DatasetStructure, Attribute
from sedpack.io.dataset_filler import DatasetFiller
import z3
from symx import *
NMAX=int(sys.argv[1])
def session(e):
    E=e.fresh_int("E",1,None); n=e.fresh_int("n",0,NMAX)
    tmp = Path(tempfile.mkdtemp(prefix="sx_"))
    try:
        ds = DatasetStructure(saved_data_description=[Attribute(name="a", dtype="int32", shape=(2,))],
            shard_file_type="fb", compression="", examples_per_shard=4, hash_checksum_algorithms=("md5",))
        d = Dataset.create(path=tmp, metadata=Metadata(description="x"), dataset_structure=ds)
        filler = DatasetFiller(d)
        filler._dataset_filler_context._examples_per_shard = E
        f = filler.__enter__()
        for i in range(n):
            f.write_example({"a": np.array([i,i],np.int32)}, split="train")
        filler.__exit__(None, None, None)
        shards = list(d.shard_info_iterator("train")) if d._dataset_info.splits else []
        counts = [s.number_of_examples for s in shards]
        for c in counts: e.prove(z3.And(1<=c, c<=E.z), "range")
        for c in counts[:-1]: e.prove(c==E.z, "full")
        e.prove(sum(counts)==n.z,"sum")
    finally:
        shutil.rmtree(tmp, ignore_errors=True)
t=time.time(); print(explore(session), time.time()-t)
