"""Minimal proxy-based symbolic executor (probe v2: realised values recorded in the decision trail)."""
import z3, time
class Abort(BaseException): pass
class Engine:
    def __init__(self):
        self.solver = z3.Solver(); self.prefix=[]; self.pos=0; self.trail=[]; self.queries=0; self.qtime=0.0; self.nvars=0; self.realisations=0
    def check(self,*extra):
        t=time.time(); r=self.solver.check(*extra); self.qtime+=time.time()-t; self.queries+=1; return r
    def fresh_int(self,name,lo=None,hi=None):
        v=z3.Int(f"{name}#{self.nvars}"); self.nvars+=1
        if lo is not None: self.solver.add(v>=lo)
        if hi is not None: self.solver.add(v<=hi)
        return SymInt(self,v)
    def branch(self,cond,val=None):
        if self.pos < len(self.prefix):
            d,done,_=self.prefix[self.pos]; self.pos+=1
            self.solver.add(cond if d else z3.Not(cond)); self.trail.append((d,done,val)); return d
        can_t = self.check(cond)==z3.sat
        can_f = self.check(z3.Not(cond))==z3.sat
        if can_t and can_f: d=True; self.trail.append((d,False,val))
        elif can_t: d=True; self.trail.append((d,True,val))
        elif can_f: d=False; self.trail.append((d,True,val))
        else: raise Abort()
        self.pos+=1
        self.solver.add(cond if d else z3.Not(cond)); return d
    def realize(self,expr):
        self.realisations+=1
        while True:
            if self.pos < len(self.prefix): val=self.prefix[self.pos][2]     # replay: same value as first time
            else:
                if self.check()!=z3.sat: raise Abort()
                val=self.solver.model().eval(expr,model_completion=True).as_long()
            if self.branch(expr==val,val): return val
    def prove(self,cond,msg=""):
        if self.check(z3.Not(cond))==z3.sat:
            raise AssertionError(("CEX",msg,self.solver.model()))
def explore(fn, maxpaths=1000000):
    prefix=[]; paths=0; stats=dict(queries=0,qtime=0.0,realisations=0)
    while True:
        e=Engine(); e.prefix=list(prefix)
        try: fn(e)
        except Abort: pass
        paths+=1; stats['queries']+=e.queries; stats['qtime']+=e.qtime; stats['realisations']+=e.realisations
        tr=e.trail
        while tr and tr[-1][1]: tr.pop()
        if not tr: break
        d,_,val=tr.pop(); prefix=list(tr)+[(not d,True,val)]
        if paths>=maxpaths: raise RuntimeError("too many paths")
    return paths,stats
def lift(e,x): return x.z if isinstance(x,SymInt) else x
class SymBool:
    def __init__(self,e,z): self.e=e; self.z=z
    def __bool__(self): return self.e.branch(self.z)
    def _i(self): return SymInt(self.e,z3.If(self.z,1,0))
    def __sub__(self,o): return self._i()-(o._i() if isinstance(o,SymBool) else o)
    def __rsub__(self,o): return o-self._i()
    def __add__(self,o): return self._i()+(o._i() if isinstance(o,SymBool) else o)
    __radd__=__add__
class SymInt:
    def __init__(self,e,z): self.e=e; self.z=z
    def _b(self,o,f): return SymInt(self.e,f(self.z,lift(self.e,o)))
    def __add__(self,o): return self._b(o,lambda a,b:a+b)
    __radd__=__add__
    def __sub__(self,o): return self._b(o,lambda a,b:a-b)
    def __rsub__(self,o): return self._b(o,lambda a,b:b-a)
    def __mul__(self,o): return self._b(o,lambda a,b:a*b)
    __rmul__=__mul__
    def __mod__(self,o): return self._b(o,lambda a,b:a%b)
    def __ge__(self,o): return SymBool(self.e,self.z>=lift(self.e,o))
    def __gt__(self,o): return SymBool(self.e,self.z>lift(self.e,o))
    def __le__(self,o): return SymBool(self.e,self.z<=lift(self.e,o))
    def __lt__(self,o): return SymBool(self.e,self.z<lift(self.e,o))
    def __eq__(self,o): return SymBool(self.e,self.z==lift(self.e,o))
    def __ne__(self,o): return SymBool(self.e,self.z!=lift(self.e,o))
    def __index__(self): return self.e.realize(self.z)
    __int__=__index__
    def __hash__(self): return hash(self.__index__())
    def __deepcopy__(self,memo): return self
