import sys, tempfile, shutil, traceback, json, os
from pathlib import Path
import numpy as np
from sedpack.io import Dataset, Metadata, DatasetStructure, Attribute
from sedpack.io.dataset_filler import DatasetFiller
def mk(tmp, ft="fb", comp="", eps=2, attrs=None):
    ds = DatasetStructure(saved_data_description=attrs or [Attribute(name="a", dtype="int32", shape=(2,))],
        shard_file_type=ft, compression=comp, examples_per_shard=eps)
    return Dataset.create(path=tmp, metadata=Metadata(description="x"), dataset_structure=ds)
def vals(d, split="train", **kw):
    return [int(e["a"][0]) for e in d.as_numpy_iterator(split=split, repeat=False, shuffle=0, **kw)]
# C17 absolute path in filler
tmp = Path(tempfile.mkdtemp()); out = Path(tempfile.mkdtemp())
d = mk(tmp)
try:
    with DatasetFiller(d, relative_path_from_split=out) as f:
        f.write_example({"a": np.array([1,1],np.int32)}, split="train")
    print("ABS filler accepted; files outside:", list(out.iterdir()))
except BaseException as e:
    print("abs filler rejected", type(e), e)
# C17 absolute path in metadata
from sedpack.io.file_info import FileInfo
try:
    print("FileInfo abs:", FileInfo(file_path="/etc/passwd"))
except Exception as e: print("rejected", e)
# C11 aliasing
tmp = Path(tempfile.mkdtemp()); d = mk(tmp, eps=10)
md = {"k": 1}
with d.filler() as f:
    f.write_example({"a": np.array([1,1],np.int32)}, split="train", custom_metadata=md)
    md["k"] = 2
    f.write_example({"a": np.array([2,2],np.int32)}, split="train", custom_metadata=md)
for s in d.shard_info_iterator("train"): print("C11 shard", s.number_of_examples, s.custom_metadata)
# C12 limit via as_tfdataset non-tfrec
tmp = Path(tempfile.mkdtemp()); d = mk(tmp, eps=1)
with d.filler() as f:
    for i in range(4):
        f.write_example({"a": np.array([i,i],np.int32)}, split="train", custom_metadata={"g": i%2})
print("numpy limit1", vals(d, custom_metadata_type_limit=1))
tfd = d.as_tfdataset("train", custom_metadata_type_limit=1, repeat=False, shuffle=0, batch_size=0)
print("tfds limit1", [int(e["a"][0]) for e in tfd.as_numpy_iterator()])
print("conc limit1", [int(e["a"][0]) for e in d.as_numpy_iterator_concurrent(split="train", custom_metadata_type_limit=1, repeat=False, shuffle=0)])
print("shards=0?", vals(d, shards=0))
